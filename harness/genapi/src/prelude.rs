//! Fixed types and imports shared by every generated program.

pub use dropshot::{
    http_response_found, http_response_see_other, http_response_temporary_redirect, ApiDescription, Body, HttpError,
    HttpResponseAccepted, HttpResponseCreated, HttpResponseDeleted, HttpResponseFound, HttpResponseHeaders, HttpResponseOk,
    HttpResponseSeeOther, HttpResponseTemporaryRedirect, HttpResponseUpdatedNoContent, MultipartBody, Path, Query,
    RequestContext, StreamingBody, TypedBody, UntypedBody, WebsocketChannelResult, WebsocketConnection,
};
pub use dropshot::{channel, endpoint};
pub use hyper::Response;
pub use schemars::JsonSchema;
pub use serde::{Deserialize, Serialize};
use std::sync::atomic::AtomicU64;

#[derive(Default)]
pub struct GenCtx {
    pub entered: AtomicU64,
    /// operation id -> `request_body_max_bytes()` as the handler saw it
    pub limits: std::sync::Mutex<std::collections::BTreeMap<String, usize>>,
}

#[derive(Deserialize, JsonSchema)]
pub struct Q0 {
    pub a: String,
}
#[derive(Deserialize, JsonSchema)]
pub struct Q1 {
    pub n: u32,
    pub flag: Option<bool>,
}
#[derive(Deserialize, JsonSchema)]
pub struct Q2 {
    #[serde(default)]
    pub d: u16,
    pub s: Option<String>,
    pub mode: Option<Mode>,
}
#[derive(Clone, Copy, Debug, Default, Serialize, Deserialize, JsonSchema)]
#[serde(rename_all = "snake_case")]
pub enum Mode {
    #[default]
    Fast,
    VerySlow,
}

#[derive(Default, Serialize, Deserialize, JsonSchema)]
pub struct B0 {
    pub name: String,
    pub count: u32,
}
#[derive(Default, Serialize, Deserialize, JsonSchema)]
pub struct B1 {
    pub items: Vec<B0>,
    pub mode: Mode,
    pub note: Option<String>,
}
#[derive(Serialize, Deserialize, JsonSchema)]
#[serde(tag = "kind")]
pub enum B2 {
    Leaf { value: i64 },
    Node { left: Box<B2>, right: Option<Box<B2>> },
}
impl Default for B2 {
    fn default() -> Self {
        B2::Leaf { value: 0 }
    }
}
#[derive(Default, Serialize, Deserialize, JsonSchema)]
pub struct B3 {
    pub map: std::collections::BTreeMap<String, u8>,
    pub id: uuid_like::Id,
    #[serde(default)]
    pub opt: Option<B0>,
}
pub mod uuid_like {
    use super::*;
    /// a newtype with a constrained string schema
    #[derive(Default, Serialize, Deserialize, JsonSchema)]
    pub struct Id(#[schemars(length(min = 1, max = 8))] pub String);
}
#[derive(Default, Serialize, Deserialize, JsonSchema)]
pub struct F0 {
    pub a: String,
    pub b: i32,
}
#[derive(Default, Serialize, Deserialize, JsonSchema)]
pub struct F1 {
    pub flag: bool,
    pub n: Option<u64>,
    pub mode: Mode,
}
pub type R0 = B0;
pub type R1 = B1;
#[derive(Default, Serialize, Deserialize, JsonSchema)]
pub struct R2 {
    pub values: Vec<i64>,
    pub nested: B0,
    pub maybe: Option<B0>,
}
pub type R3 = Vec<B0>;

#[derive(Serialize, JsonSchema)]
pub struct GenHeaders {
    #[serde(rename = "x-gen")]
    pub x_gen: String,
}

#[derive(Debug, Serialize, JsonSchema)]
pub struct GenError {
    pub problem: String,
    #[serde(skip)]
    pub status: u16,
}
impl std::fmt::Display for GenError {
    fn fmt(&self, f: &mut std::fmt::Formatter<'_>) -> std::fmt::Result {
        write!(f, "gen error {}", self.problem)
    }
}
impl dropshot::HttpResponseError for GenError {
    fn status_code(&self) -> dropshot::ErrorStatusCode {
        dropshot::ErrorStatusCode::from_u16(self.status).unwrap_or(dropshot::ErrorStatusCode::BAD_REQUEST)
    }
}
impl From<HttpError> for GenError {
    fn from(e: HttpError) -> Self {
        GenError { problem: e.external_message, status: e.status_code.as_u16() }
    }
}
