//! Runs C19 (and the generated half of C07) against the program produced by
//! `vcheck progen` (src/generated.rs + src/generated_manifest.json).

mod generated;
pub mod prelude;

use dropshot::ApiDescription;
use serde::{Deserialize, Serialize};
use serde_json::{json, Value};
use std::sync::atomic::Ordering;
use vlib::core::*;
use vlib::dynapi::{into_lookup, LookupFn, LookupOut};
use vlib::model::{pct_encode_segment, MVer};
use vlib::progen::*;
use vlib::{ensure, fail};

const POOL: [&str; 8] = ["0.5.0", "1.0.0", "1.5.0", "2.0.0", "2.5.0", "3.1.4", "3.1.5", "4.0.0"];

#[derive(Deserialize)]
struct Manifest {
    seed: u64,
    n: usize,
    decls: Vec<Decl>,
}

fn manifest() -> Manifest {
    serde_json::from_str(include_str!("generated_manifest.json")).expect("manifest")
}

fn ver(s: &str) -> semver::Version {
    semver::Version::parse(s).unwrap()
}

fn member(d: &Decl, v: &str) -> bool {
    let (lo, hi) = d.version_bounds();
    let v = ver(v);
    match (lo, hi) {
        (None, None) => true,
        (Some(a), None) => v >= ver(&a),
        (None, Some(b)) => v < ver(&b),
        (Some(a), Some(b)) => {
            if a == b {
                v == ver(&a)
            } else {
                v >= ver(&a) && v < ver(&b)
            }
        }
    }
}

fn instantiate(d: &Decl) -> String {
    let mut s = String::new();
    for seg in &d.segs {
        s.push('/');
        match seg {
            PSeg::Lit(l) => s.push_str(&pct_encode_segment(l.as_bytes(), 1, true)),
            PSeg::Var(_, t) => s.push_str(match t.as_str() {
                "u32" => "7",
                "i64" => "-3",
                "bool" => "true",
                _ => "abc",
            }),
            PSeg::Wild(_) => s.push_str("r1/r2"),
        }
    }
    s
}

struct Styles {
    /// (style name, lookup)
    lookups: Vec<(&'static str, LookupFn)>,
    /// per pool version: documents of the three styles as (bytes, json)
    docs: Vec<Vec<(Vec<u8>, Value)>>,
}

fn doc_of<C: dropshot::ServerContext>(api: &ApiDescription<C>, v: &str) -> (Vec<u8>, Value) {
    let mut out = Vec::new();
    api.openapi("generated", ver(v)).write(&mut out).expect("openapi");
    let j = serde_json::from_slice(&out).expect("json");
    (out, j)
}

fn prepare() -> Styles {
    let f = generated::fn_style::api();
    let t = generated::trait_style::api();
    let s = generated::trait_style::stub();
    let docs = POOL.iter().map(|v| vec![doc_of(&f, v), doc_of(&t, v), doc_of(&s, v)]).collect();
    Styles { lookups: vec![("functions", into_lookup(f)), ("trait+impl", into_lookup(t)), ("trait stub", into_lookup(s))], docs }
}

#[derive(Clone, Debug, Serialize, Deserialize)]
struct DeclCase {
    seed: u64,
    n: usize,
    decl: Decl,
}

fn squeeze(s: &str) -> String {
    s.chars().filter(|c| !c.is_whitespace()).collect()
}

fn check_decl(styles: &Styles, c: &DeclCase, st: &mut Stats) -> Result<(), Failure> {
    let d = &c.decl;
    let path = instantiate(d);
    let what = format!(
        "declaration #{} ({} {} {}, versions {:?}, op {:?}, tags {:?}, max_bytes {:?}, deprecated {}, unpublished {}, body {:?}, doc style {:?})",
        d.id,
        if d.channel { "channel" } else { "endpoint" },
        d.method,
        d.path_template(),
        d.versions,
        d.operation_id,
        d.tags,
        d.max_bytes,
        d.deprecated,
        d.unpublished,
        d.body,
        d.doc_style
    );
    let attrs = [d.tags.len() > 0, d.versions != Versions::Unspecified, d.operation_id.is_some(), d.max_bytes.is_some(), d.deprecated, d.unpublished, !d.doc.is_empty(), d.channel, d.body != BodyKind::None]
        .iter()
        .filter(|b| **b)
        .count();
    if attrs >= 3 {
        st.nontrivial(hash_of(&format!("{:?}", d)));
    }
    st.count(if d.channel { "channels" } else { "endpoints" });
    st.count(&format!("doc_style:{:?}", d.doc_style));
    for (vi, v) in POOL.iter().enumerate() {
        let is_member = member(d, v);
        let mv = MVer::parse(v);
        // (a) record vs routing, in all three styles
        for (style, lookup) in &styles.lookups {
            let out = lookup(&d.method, &path, Some(&mv));
            st.eval();
            if is_member {
                match &out {
                    LookupOut::Found { op, max_bytes, content_type, .. } => {
                        ensure!(op == &d.op_id(), "routing-operation-id", "{} [{}] @{}: routed to {:?}, declared {:?}", what, style, v, op, d.op_id());
                        ensure!(
                            *max_bytes == d.max_bytes.map(|(n, _)| n as usize),
                            "routing-max-bytes",
                            "{} [{}] @{}: body limit {:?}, declared {:?}",
                            what,
                            style,
                            v,
                            max_bytes,
                            d.max_bytes
                        );
                        // the content_type attribute (default application/json) is what the router carries
                        let declared_ct = if matches!(d.body, BodyKind::Form(_)) { "application/x-www-form-urlencoded" } else { "application/json" };
                        ensure!(content_type == declared_ct, "routing-content-type", "{} [{}] @{}: content type {:?}, declared {:?}", what, style, v, content_type, declared_ct);
                    }
                    o => fail!("declared-version-not-served", "{} [{}]: {} {} @{} should be served, got {:?}", what, style, d.method, path, v, o),
                }
            } else {
                ensure!(matches!(out, LookupOut::Miss { .. }), "served-outside-declared-versions", "{} [{}]: {} {} @{} is outside the declared versions but got {:?}", what, style, d.method, path, v, out);
            }
        }
        // (b) record vs document (function style; the three styles are compared byte-wise below)
        let doc = &styles.docs[vi][0].1;
        let op = &doc["paths"][d.doc_path()][d.method.to_lowercase()];
        st.eval();
        if d.unpublished || !is_member {
            ensure!(op.is_null(), "documented-although-unpublished-or-out-of-range", "{} @{}: operation is in the document: {}", what, v, truncate(&op.to_string(), 200));
            continue;
        }
        ensure!(!op.is_null(), "declared-operation-not-documented", "{} @{}: no operation at {} {}", what, v, d.method, d.doc_path());
        ensure!(op["operationId"] == json!(d.op_id()), "doc-operation-id", "{} @{}: operationId {} != {:?}", what, v, op["operationId"], d.op_id());
        let tags: Vec<String> = op["tags"].as_array().map(|a| a.iter().filter_map(|t| t.as_str().map(|s| s.to_string())).collect()).unwrap_or_default();
        ensure!(tags == d.tags, "doc-tags", "{} @{}: tags {:?} != {:?}", what, v, tags, d.tags);
        ensure!(op.get("deprecated").and_then(|x| x.as_bool()).unwrap_or(false) == d.deprecated, "doc-deprecated", "{} @{}: deprecated {:?}", what, v, op.get("deprecated"));
        if d.body != BodyKind::None && !d.channel {
            let content = op["requestBody"]["content"].as_object();
            ensure!(
                content.map(|c| c.len() == 1 && c.contains_key(d.content_type())).unwrap_or(false),
                "doc-content-type",
                "{} @{}: request body content {:?}, declared {}",
                what,
                v,
                content.map(|c| c.keys().cloned().collect::<Vec<_>>()),
                d.content_type()
            );
        } else {
            ensure!(op.get("requestBody").is_none(), "doc-invented-body", "{} @{}: a request body is documented for an endpoint without one", what, v);
        }
        ensure!(op.get("x-dropshot-websocket").is_some() == d.channel, "doc-websocket-extension", "{} @{}: x-dropshot-websocket present = {}", what, v, op.get("x-dropshot-websocket").is_some());
        let text = format!("{}{}", op["summary"].as_str().unwrap_or(""), op["description"].as_str().unwrap_or(""));
        ensure!(
            squeeze(&text) == d.doc_text_squeezed(),
            format!("doc-comment-text:{:?}", d.doc_style),
            "{} @{}: doc comment words {:?} but summary {:?} + description {:?}",
            what,
            v,
            d.doc,
            op["summary"],
            op["description"]
        );
        if vi == 0 {
            st.sample(|| json!({"declaration": what, "operation": truncate(&op.to_string(), 300)}));
        }
    }
    Ok(())
}

// ---- live: the declared body limit is the one the server applies -----------------

const SERVER_DEFAULT_MAX: usize = 1024;

struct LiveStyle {
    name: &'static str,
    addr: std::net::SocketAddr,
    server: dropshot::HttpServer<prelude::GenCtx>,
}

fn start_live(name: &'static str, api: ApiDescription<prelude::GenCtx>, rt: &tokio::runtime::Runtime) -> LiveStyle {
    let _g = rt.enter();
    let policy = dropshot::VersionPolicy::Dynamic(Box::new(dropshot::ClientSpecifiesVersionInHeader::new(
        http::HeaderName::from_static("x-verif-version"),
        ver("9.9.9"),
    )));
    let cfg = dropshot::ConfigDropshot { default_request_body_max_bytes: SERVER_DEFAULT_MAX, ..Default::default() };
    let server = vlib::dynapi::start_server(api, prelude::GenCtx::default(), cfg, Some(policy)).expect("generated server");
    LiveStyle { name, addr: server.local_addr(), server }
}

/// a body the endpoint accepts, and how to make it exactly `n` bytes long
fn body_of_len(kind: &BodyKind, n: usize) -> Option<Vec<u8>> {
    let base: Vec<u8> = match kind {
        BodyKind::None | BodyKind::Streaming | BodyKind::Multipart => return None,
        BodyKind::Json(0) => br#"{"name":"n","count":1}"#.to_vec(),
        BodyKind::Json(1) => br#"{"items":[],"mode":"fast"}"#.to_vec(),
        BodyKind::Json(2) => br#"{"kind":"Leaf","value":0}"#.to_vec(),
        BodyKind::Json(_) => br#"{"map":{},"id":"x"}"#.to_vec(),
        BodyKind::Form(0) => b"a=x&b=1".to_vec(),
        BodyKind::Form(_) => b"flag=true&mode=fast".to_vec(),
        BodyKind::Untyped => vec![],
    };
    if base.len() > n {
        return None;
    }
    let mut b = base;
    match kind {
        BodyKind::Json(_) => b.resize(n, b' '),
        BodyKind::Form(_) => {
            // pad with an unknown field (at least "&p=" long)
            let room = n - b.len();
            if room == 0 {
            } else if room < 3 {
                return None;
            } else {
                b.extend_from_slice(b"&p=");
                b.resize(n, b'x');
            }
        }
        _ => b.resize(n, b'u'),
    }
    Some(b)
}

fn check_live_decl(lives: &[LiveStyle], rt: &tokio::runtime::Runtime, c: &DeclCase, st: &mut Stats) -> Result<(), Failure> {
    use std::time::Duration;
    let d = &c.decl;
    if d.channel {
        return Ok(());
    }
    let Some(v) = POOL.iter().find(|v| member(d, v)) else {
        st.count("no_pool_version_in_range");
        return Ok(());
    };
    let limit = d.max_bytes.map(|(n, _)| n as usize).unwrap_or(SERVER_DEFAULT_MAX);
    let query = match d.query {
        Some(0) => "?a=x",
        Some(1) => "?n=1",
        _ => "",
    };
    let target = format!("{}{}{}", instantiate(d), if d.trailing_slash { "/" } else { "" }, query);
    let what = format!("declaration #{} ({} {}, body {:?}, declared request_body_max_bytes {:?}, server default {})", d.id, d.method, d.path_template(), d.body, d.max_bytes, SERVER_DEFAULT_MAX);
    let mk = |body: Option<&[u8]>| {
        let mut headers = vec![("x-verif-version".to_string(), v.to_string())];
        match d.body {
            BodyKind::None => {}
            BodyKind::Multipart => headers.push(("content-type".into(), "multipart/form-data; boundary=b".into())),
            _ => headers.push(("content-type".into(), d.content_type().to_string())),
        }
        vlib::http1::build_request(&d.method, &target, &headers, body)
    };
    let head = d.method == "HEAD";
    for live in lives {
        let ctx = live.server.app_private();
        // 1. a plain valid request: the handler runs and sees the declared (or default) limit
        let small: Option<Vec<u8>> = match d.body {
            BodyKind::None => None,
            BodyKind::Streaming => Some(b"xyz".to_vec()),
            BodyKind::Multipart => Some(b"--b--\r\n".to_vec()),
            _ => body_of_len(&d.body, 0).or_else(|| (1..64).find_map(|n| body_of_len(&d.body, n).filter(|b| b.len() == n && (n == 0 || !b.ends_with(b" "))))),
        };
        let fits = small.as_ref().map(|b| b.len() <= limit).unwrap_or(true);
        st.eval();
        if fits {
            ctx.limits.lock().unwrap().remove(&d.op_id());
            let r = rt
                .block_on(vlib::http1::oneshot(live.addr, &mk(small.as_deref()), head, Duration::from_secs(10)))
                .map_err(|e| Failure::new("live-no-response", format!("{} [{}]: {}", what, live.name, e)))?;
            ensure!(r.status < 400, "live-valid-request-refused", "{} [{}] @{}: {} {} answered {} {}", what, live.name, v, d.method, target, r.status, truncate(&r.body_text(), 200));
            let seen = ctx.limits.lock().unwrap().get(&d.op_id()).copied();
            ensure!(
                seen == Some(limit),
                "effective-body-limit",
                "{} [{}] @{}: the handler's request_body_max_bytes() is {:?}, declared/default limit is {}",
                what,
                live.name,
                v,
                seen,
                limit
            );
            st.count("limit_seen_by_handler");
        }
        // 2. buffered bodies: exactly the limit is accepted, one byte more is refused before the handler runs
        if matches!(d.body, BodyKind::Json(_) | BodyKind::Form(_) | BodyKind::Untyped) {
            if let Some(b) = body_of_len(&d.body, limit) {
                st.eval();
                let r = rt
                    .block_on(vlib::http1::oneshot(live.addr, &mk(Some(&b)), head, Duration::from_secs(10)))
                    .map_err(|e| Failure::new("live-no-response", format!("{} [{}]: {}", what, live.name, e)))?;
                ensure!(r.status < 400, "body-at-limit-refused", "{} [{}] @{}: a body of exactly {} bytes answered {} {}", what, live.name, v, limit, r.status, truncate(&r.body_text(), 200));
            }
            if let Some(b) = body_of_len(&d.body, limit + 1) {
                st.eval();
                let before = ctx.entered.load(Ordering::SeqCst);
                let r = rt
                    .block_on(vlib::http1::oneshot(live.addr, &mk(Some(&b)), head, Duration::from_secs(10)))
                    .map_err(|e| Failure::new("live-no-response", format!("{} [{}]: {}", what, live.name, e)))?;
                let after = ctx.entered.load(Ordering::SeqCst);
                ensure!(
                    (400..500).contains(&r.status) && after == before,
                    "body-over-limit-accepted",
                    "{} [{}] @{}: a body of {} bytes (limit {}) answered {} and the handler ran {} time(s)",
                    what,
                    live.name,
                    v,
                    limit + 1,
                    limit,
                    r.status,
                    after - before
                );
                st.count("over_limit_refused");
                if d.max_bytes.is_some() {
                    st.nontrivial(hash_of(&format!("live{:?}", d)));
                }
            }
        }
    }
    if d.max_bytes.map(|(n, _)| (n as usize) < SERVER_DEFAULT_MAX).unwrap_or(false) {
        st.count("declared_limit_below_default");
    }
    st.count("live_endpoints");
    st.sample(|| json!({"declaration": what, "request": format!("{} {} @{}", d.method, target, v)}));
    Ok(())
}

#[derive(Clone, Debug, Serialize, Deserialize)]
struct StyleCase {
    seed: u64,
    n: usize,
    version: String,
}

fn check_styles(styles: &Styles, c: &StyleCase, st: &mut Stats) -> Result<(), Failure> {
    let vi = POOL.iter().position(|v| *v == c.version).unwrap_or(0);
    let docs = &styles.docs[vi];
    st.eval();
    st.nontrivial(hash_str(&c.version));
    let names = ["functions", "trait+impl", "trait stub"];
    for i in 1..3 {
        if docs[0].0 != docs[i].0 {
            // find the first differing operation for the message
            let mut diff = String::new();
            if let (Some(a), Some(b)) = (docs[0].1["paths"].as_object(), docs[i].1["paths"].as_object()) {
                for (p, item) in a {
                    if b.get(p) != Some(item) {
                        diff = format!("path {}: {} vs {}", p, truncate(&item.to_string(), 400), truncate(&b.get(p).map(|x| x.to_string()).unwrap_or("<absent>".into()), 400));
                        break;
                    }
                }
                for p in b.keys() {
                    if !a.contains_key(p) && diff.is_empty() {
                        diff = format!("path {} only in {}", p, names[i]);
                    }
                }
            }
            if diff.is_empty() {
                diff = "difference outside 'paths' (components?)".into();
            }
            fail!("styles-differ", "document at version {} differs between {} and {}: {}", c.version, names[0], names[i], diff);
        }
    }
    // the document-level tag list of a version: exactly the tags written on the published declarations served at it
    let m = manifest();
    let want: std::collections::BTreeSet<String> = m.decls.iter().filter(|d| !d.unpublished && member(d, &c.version)).flat_map(|d| d.tags.iter().cloned()).collect();
    let got: std::collections::BTreeSet<String> = docs[0].1["tags"].as_array().map(|a| a.iter().filter_map(|t| t["name"].as_str().map(|s| s.to_string())).collect()).unwrap_or_default();
    ensure!(
        got == want,
        "doc-level-tags",
        "document at version {}: top-level tags list {:?}, but the declarations published at this version carry {:?} (extra {:?}, missing {:?})",
        c.version,
        got,
        want,
        got.difference(&want).collect::<Vec<_>>(),
        want.difference(&got).collect::<Vec<_>>()
    );
    st.sample(|| json!({"version": c.version, "bytes": docs[0].0.len(), "operations": docs[0].1["paths"].as_object().map(|p| p.len()), "tags": got.len()}));
    Ok(())
}

fn run_c19(ctx: &mut Ctx) {
    let m = manifest();
    ctx.rule = format!("{} generated endpoint/channel declarations (seed {}) over method, path shapes (literals, typed variables, trailing wildcard), tags, all five version-range syntaxes with string literals and const paths, operation_id, content_type, request_body_max_bytes (literal and const), deprecated, unpublished, extractor lists in both orders, all response kinds, custom error types and four doc-comment shapes; each rendered as a free function, as an API-trait method with an implementation and present in the trait's stub. Oracle: generator-side record == routing metadata at 8 probe versions in all three styles == OpenAPI operation (id, tags, deprecated, content type, websocket extension, doc text with whitespace removed); the three styles yield byte-identical documents at every version, whose document-level tag list is exactly the set of tags of the declarations published at that version. Phase served_live sends each endpoint (function and trait+impl style, header version policy) a valid request and compares the handler's request_body_max_bytes() with the declared limit (else the server default of 1024), then a buffered body of exactly the limit (accepted) and one byte more (4xx, handler not entered). non-trivial = declaration using >= 3 optional attributes; distinct by declaration", m.n, m.seed);
    ctx.assume("compile-time rejection of bad declarations is out of scope; the grammar of generated declarations is finite");
    let styles = prepare();
    let cases: Vec<DeclCase> = m.decls.iter().map(|d| DeclCase { seed: m.seed, n: m.n, decl: d.clone() }).collect();
    // in replay mode the replayed declaration is looked up by id in the regenerated program
    ctx.enumerate("declarations", cases, false, |c, st| {
        let current = m.decls.iter().find(|d| d.id == c.decl.id);
        match current {
            Some(d) if d == &c.decl => check_decl(&styles, c, st),
            _ => Err(Failure::new("replay-program-mismatch", "the compiled program does not contain this declaration (regenerate with the seed/n in the replay file)")),
        }
    });
    {
        let rt = tokio::runtime::Builder::new_multi_thread().worker_threads(2).enable_all().build().unwrap();
        let lives = vec![start_live("functions", generated::fn_style::api(), &rt), start_live("trait+impl", generated::trait_style::api(), &rt)];
        let cases: Vec<DeclCase> = m.decls.iter().map(|d| DeclCase { seed: m.seed, n: m.n, decl: d.clone() }).collect();
        ctx.enumerate("served_live", cases, false, |c, st| match m.decls.iter().find(|d| d.id == c.decl.id) {
            Some(d) if d == &c.decl => check_live_decl(&lives, &rt, c, st),
            _ => Err(Failure::new("replay-program-mismatch", "the compiled program does not contain this declaration (regenerate with the seed/n in the replay file)")),
        });
        ctx.require_frac("served_live", "limit_seen_by_handler", "live_endpoints", 0.5);
        ctx.require_frac("served_live", "declared_limit_below_default", "live_endpoints", 0.08);
        for l in lives {
            let _ = rt.block_on(l.server.close());
        }
    }
    let cases: Vec<StyleCase> = POOL.iter().map(|v| StyleCase { seed: m.seed, n: m.n, version: v.to_string() }).collect();
    ctx.enumerate("styles_identical", cases, false, |c, st| check_styles(&styles, c, st));
    ctx.require_frac("declarations", "channels", "endpoints", 0.02);
}

fn run_c07(ctx: &mut Ctx) {
    vlib::c07::run_with(ctx, |rt, suts, keep| {
        for (i, v) in ["1.0.0", "2.5.0", "3.1.4"].iter().enumerate() {
            suts.push(vlib::c07::make_sut_versioned(rt, &format!("generated-functions@{}", v), generated::fn_style::api(), prelude::GenCtx::default(), |c| Some(c.entered.load(Ordering::SeqCst)), keep, Some(v)));
            if i == 0 {
                suts.push(vlib::c07::make_sut_versioned(rt, &format!("generated-trait@{}", v), generated::trait_style::api(), prelude::GenCtx::default(), |c| Some(c.entered.load(Ordering::SeqCst)), keep, Some(v)));
            }
        }
    });
}

fn main() {
    let args: Vec<String> = std::env::args().collect();
    if args.len() < 3 {
        eprintln!("usage: genapi <C19|C07> <quick|thorough> [--replay file]");
        std::process::exit(2);
    }
    let id = args[1].to_uppercase();
    let tier = if args[2] == "thorough" { Tier::Thorough } else { Tier::Quick };
    let mut replay = None;
    if args.len() >= 5 && args[3] == "--replay" {
        let text = std::fs::read_to_string(&args[4]).expect("replay file");
        replay = Some(serde_json::from_str::<ReplayFile>(&text).expect("replay file"));
    }
    let seed: u64 = std::env::var("VERIF_SEED").ok().and_then(|s| s.parse().ok()).unwrap_or(1);
    install_panic_hook();
    watchdog(if tier == Tier::Quick { 900 } else { 6 * 3600 }, id.clone());
    let mut ctx = Ctx::new(&id, tier, seed, replay);
    let outcome = std::panic::catch_unwind(std::panic::AssertUnwindSafe(|| match id.as_str() {
        "C19" => run_c19(&mut ctx),
        "C07" => run_c07(&mut ctx),
        _ => std::process::exit(2),
    }));
    if let Err(e) = outcome {
        let msg = e.downcast_ref::<&str>().map(|s| s.to_string()).or_else(|| e.downcast_ref::<String>().cloned()).unwrap_or_else(|| "<non-string panic>".into());
        ctx.harness_error(format!("a panic escaped the phases: {}", msg));
    }
    std::process::exit(ctx.finish());
}
