//! TLS support for the live checks: a self-signed server certificate and a
//! client that accepts it, so that the HTTPS accept path (separate code from
//! the plain one) is exercised too.

use std::sync::Arc;
use tokio::net::TcpStream;
use tokio_rustls::rustls;
use tokio_rustls::rustls::client::danger::{HandshakeSignatureValid, ServerCertVerified, ServerCertVerifier};
use tokio_rustls::rustls::pki_types::{CertificateDer, ServerName, UnixTime};

pub fn self_signed() -> (Vec<u8>, Vec<u8>) {
    let ck = rcgen::generate_simple_self_signed(vec!["localhost".to_string()]).expect("rcgen");
    (ck.cert.pem().into_bytes(), ck.key_pair.serialize_pem().into_bytes())
}

pub fn server_tls_config() -> dropshot::ConfigTls {
    let (certs, key) = self_signed();
    dropshot::ConfigTls::AsBytes { certs, key }
}

#[derive(Debug)]
struct AcceptAny(Arc<rustls::crypto::CryptoProvider>);

impl ServerCertVerifier for AcceptAny {
    fn verify_server_cert(&self, _: &CertificateDer<'_>, _: &[CertificateDer<'_>], _: &ServerName<'_>, _: &[u8], _: UnixTime) -> Result<ServerCertVerified, rustls::Error> {
        Ok(ServerCertVerified::assertion())
    }
    fn verify_tls12_signature(&self, m: &[u8], c: &CertificateDer<'_>, d: &rustls::DigitallySignedStruct) -> Result<HandshakeSignatureValid, rustls::Error> {
        rustls::crypto::verify_tls12_signature(m, c, d, &self.0.signature_verification_algorithms)
    }
    fn verify_tls13_signature(&self, m: &[u8], c: &CertificateDer<'_>, d: &rustls::DigitallySignedStruct) -> Result<HandshakeSignatureValid, rustls::Error> {
        rustls::crypto::verify_tls13_signature(m, c, d, &self.0.signature_verification_algorithms)
    }
    fn supported_verify_schemes(&self) -> Vec<rustls::SignatureScheme> {
        self.0.signature_verification_algorithms.supported_schemes()
    }
}

pub fn connector() -> tokio_rustls::TlsConnector {
    let provider = Arc::new(rustls::crypto::ring::default_provider());
    let cfg = rustls::ClientConfig::builder_with_provider(provider.clone())
        .with_safe_default_protocol_versions()
        .unwrap()
        .dangerous()
        .with_custom_certificate_verifier(Arc::new(AcceptAny(provider)))
        .with_no_client_auth();
    tokio_rustls::TlsConnector::from(Arc::new(cfg))
}

pub async fn handshake(c: &tokio_rustls::TlsConnector, tcp: TcpStream) -> std::io::Result<tokio_rustls::client::TlsStream<TcpStream>> {
    c.connect(ServerName::try_from("localhost").unwrap(), tcp).await
}
