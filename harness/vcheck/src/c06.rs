//! C06 — the OpenAPI document for version v lists exactly what is served at v.

use crate::core::*;
use crate::dynapi::*;
use crate::model::*;
use crate::routing::permute;
use crate::tables::*;
use crate::{ensure, fail};
use dropshot::{
    ApiDescription, ApiEndpoint, ErrorStatusCode, HttpError, HttpResponseAccepted, HttpResponseCreated,
    HttpResponseDeleted, HttpResponseOk, HttpResponseUpdatedNoContent, Path, RequestContext, TypedBody,
};
use proptest::prelude::*;
use schemars::JsonSchema;
use serde::{Deserialize, Serialize};
use serde_json::{json, Value};
use std::collections::BTreeSet;

// ---- a zoo of handler shapes that force $refs ---------------------------

#[derive(Serialize, Deserialize, JsonSchema)]
struct Leaf {
    a: u32,
    b: Option<String>,
}
#[derive(Serialize, Deserialize, JsonSchema)]
struct Named {
    leaf: Leaf,
    leaves: Vec<Leaf>,
}
#[derive(Serialize, Deserialize, JsonSchema)]
struct Recursive {
    value: i64,
    children: Vec<Recursive>,
    next: Option<Box<Recursive>>,
}
mod dup_a {
    use super::*;
    #[derive(Serialize, Deserialize, JsonSchema)]
    pub struct Dup {
        pub x: u8,
    }
}
mod dup_b {
    use super::*;
    #[derive(Serialize, Deserialize, JsonSchema)]
    pub struct Dup {
        pub y: String,
        pub z: Leaf,
    }
}
#[derive(Serialize, Deserialize, JsonSchema)]
enum Choice {
    One(Leaf),
    Two { n: Named },
    Three,
}

#[derive(Debug, Serialize, JsonSchema)]
struct MyErr {
    why: String,
    detail: ErrDetail,
}
#[derive(Debug, Serialize, JsonSchema)]
struct ErrDetail {
    code: u16,
}
impl std::fmt::Display for MyErr {
    fn fmt(&self, f: &mut std::fmt::Formatter<'_>) -> std::fmt::Result {
        write!(f, "myerr")
    }
}
impl dropshot::HttpResponseError for MyErr {
    fn status_code(&self) -> ErrorStatusCode {
        ErrorStatusCode::IM_A_TEAPOT
    }
}
impl From<HttpError> for MyErr {
    fn from(e: HttpError) -> Self {
        MyErr { why: e.external_message, detail: ErrDetail { code: e.status_code.as_u16() } }
    }
}

// named types that are only reachable *transitively* from a response header or a query parameter
#[derive(Serialize, Deserialize, JsonSchema)]
enum Freshness {
    Fresh,
    Stale,
}
#[derive(Serialize, Deserialize, JsonSchema)]
struct CacheState(Freshness);
#[derive(Serialize, JsonSchema)]
struct NestedHeaders {
    #[serde(rename = "x-cache")]
    cache: CacheState,
    #[serde(rename = "x-plain")]
    plain: String,
}
#[derive(Serialize, Deserialize, JsonSchema)]
enum Level {
    Low,
    High,
}
#[derive(Serialize, Deserialize, JsonSchema)]
struct LevelWrap(Level);
#[derive(Serialize, Deserialize, JsonSchema)]
struct LevelWrap2(LevelWrap);
#[derive(Deserialize, JsonSchema)]
struct NestedQuery {
    level: Option<LevelWrap2>,
    plain: Option<u8>,
}

type Rq = RequestContext<DynCtx>;
async fn h_hdr(_: Rq, _p: Path<DynPath>) -> Result<dropshot::HttpResponseHeaders<HttpResponseOk<Leaf>, NestedHeaders>, HttpError> {
    unreachable!()
}
async fn h_query(_: Rq, _p: Path<DynPath>, _q: dropshot::Query<NestedQuery>) -> Result<HttpResponseOk<Leaf>, HttpError> {
    unreachable!()
}
async fn h_value(_: Rq, _p: Path<DynPath>) -> Result<HttpResponseOk<Value>, HttpError> {
    unreachable!()
}
async fn h_named(_: Rq, _p: Path<DynPath>) -> Result<HttpResponseOk<Named>, HttpError> {
    unreachable!()
}
async fn h_vec(_: Rq, _p: Path<DynPath>) -> Result<HttpResponseCreated<Vec<Leaf>>, HttpError> {
    unreachable!()
}
async fn h_rec(_: Rq, _p: Path<DynPath>) -> Result<HttpResponseAccepted<Recursive>, HttpError> {
    unreachable!()
}
async fn h_dup_a(_: Rq, _p: Path<DynPath>) -> Result<HttpResponseOk<dup_a::Dup>, HttpError> {
    unreachable!()
}
async fn h_dup_b(_: Rq, _p: Path<DynPath>) -> Result<HttpResponseOk<dup_b::Dup>, HttpError> {
    unreachable!()
}
async fn h_err(_: Rq, _p: Path<DynPath>) -> Result<HttpResponseOk<Choice>, MyErr> {
    unreachable!()
}
async fn h_body(_: Rq, _p: Path<DynPath>, _b: TypedBody<Named>) -> Result<HttpResponseUpdatedNoContent, HttpError> {
    unreachable!()
}
async fn h_body_dup(_: Rq, _p: Path<DynPath>, _b: TypedBody<dup_b::Dup>) -> Result<HttpResponseDeleted, MyErr> {
    unreachable!()
}

const N_KINDS: u8 = 11;

fn make_zoo_endpoint(e: &MEndpoint, kind: u8, tags: &[String], deprecated: bool) -> ApiEndpoint<DynCtx> {
    // sets the thread-local path spec; every other kind value gives the path variables a *named*
    // type (a $ref to a schema that nothing else in the document mentions)
    let spec: ParamSpec = if (kind / N_KINDS) % 2 == 1 {
        e.var_names().into_iter().map(|(n, wild)| (n, if wild { PKind::StrArray } else { PKind::RefScalar })).collect()
    } else {
        default_path_spec(e)
    };
    let _ = make_endpoint(e, &spec, None, &[]);
    let m = method_of(&e.method);
    let ct = "application/json";
    let t = e.template();
    let v = e.range.to_dropshot();
    let op = e.op.clone();
    let mut ep = match kind % N_KINDS {
        0 => ApiEndpoint::new(op, h_value, m, ct, &t, v),
        1 => ApiEndpoint::new(op, h_named, m, ct, &t, v),
        2 => ApiEndpoint::new(op, h_vec, m, ct, &t, v),
        3 => ApiEndpoint::new(op, h_rec, m, ct, &t, v),
        4 => ApiEndpoint::new(op, h_dup_a, m, ct, &t, v),
        5 => ApiEndpoint::new(op, h_dup_b, m, ct, &t, v),
        6 => ApiEndpoint::new(op, h_err, m, ct, &t, v),
        7 => ApiEndpoint::new(op, h_body, m, ct, &t, v),
        8 => ApiEndpoint::new(op, h_body_dup, m, ct, &t, v),
        9 => ApiEndpoint::new(op, h_hdr, m, ct, &t, v),
        _ => ApiEndpoint::new(op, h_query, m, ct, &t, v),
    }
    .visible(e.visible)
    .deprecated(deprecated);
    for t in tags {
        ep = ep.tag(t);
    }
    ep
}

#[derive(Clone, Debug, Serialize, Deserialize)]
struct DocCase {
    table: TableSpec,
    kinds: Vec<u8>,
    tag_bits: Vec<u8>,
    /// reuse operation ids across endpoints whose ranges are disjoint
    reuse_ids: bool,
    perms: [Vec<u16>; 3],
}

fn doc_case_strategy() -> impl Strategy<Value = DocCase> {
    (
        table_strategy(3),
        proptest::collection::vec(0u8..(2 * N_KINDS), 24),
        proptest::collection::vec(0u8..8, 24),
        any::<bool>(),
        [
            proptest::collection::vec(any::<u16>(), 24),
            proptest::collection::vec(any::<u16>(), 24),
            proptest::collection::vec(any::<u16>(), 24),
        ],
    )
        .prop_map(|(table, kinds, tag_bits, reuse_ids, perms)| DocCase { table, kinds, tag_bits, reuse_ids, perms })
}

struct Decl {
    e: MEndpoint,
    kind: u8,
    tags: Vec<String>,
    deprecated: bool,
}

fn decls(c: &DocCase) -> Vec<Decl> {
    let mut table = c.table.endpoints(20);
    if c.reuse_ids {
        // endpoints on the same (method, path) have disjoint ranges by
        // construction: give them one operation id
        for i in 0..table.len() {
            for j in 0..i {
                if table[i].method == table[j].method && table[i].segs == table[j].segs {
                    table[i].op = table[j].op.clone();
                    break;
                }
            }
        }
    }
    table
        .into_iter()
        .enumerate()
        .map(|(i, mut e)| {
            let bits = c.tag_bits[i % c.tag_bits.len()];
            // the table generator leaves wildcard endpoints unpublished (the macros insist on that);
            // through ApiEndpoint::new they can be published, and then they must be documented
            if matches!(e.segs.last(), Some(Seg::Wild(_))) && bits & 4 == 0 {
                e.visible = true;
            }
            let mut tags = vec![];
            if bits & 1 != 0 {
                tags.push("alpha".to_string());
            }
            if bits & 2 != 0 {
                tags.push("beta".to_string());
            }
            if bits & 3 == 3 {
                // a tag nobody else carries, so that the set of tags in use depends on version and visibility
                tags.push(format!("only-{}", e.op));
            }
            Decl { e, kind: c.kinds[i % c.kinds.len()], tags, deprecated: bits & 4 != 0 }
        })
        .collect()
}

fn build(ds: &[&Decl]) -> Result<ApiDescription<DynCtx>, Failure> {
    let mut api = ApiDescription::new();
    for d in ds {
        let r = catch_quiet(|| api.register(make_zoo_endpoint(&d.e, d.kind, &d.tags, d.deprecated)));
        match r {
            Ok(Ok(())) => {}
            other => fail!("clean-table-refused", "{} {} [{}] refused: {:?}", d.e.method, d.e.template(), d.e.range.text(), other.map(|r| r.map_err(|e| e.to_string()))),
        }
    }
    Ok(api)
}

fn collect_refs(v: &Value, out: &mut Vec<String>) {
    match v {
        Value::Object(m) => {
            for (k, x) in m {
                if k == "$ref" {
                    if let Value::String(s) = x {
                        out.push(s.clone());
                    }
                }
                collect_refs(x, out);
            }
        }
        Value::Array(a) => a.iter().for_each(|x| collect_refs(x, out)),
        _ => {}
    }
}

fn resolve<'a>(doc: &'a Value, r: &str) -> Option<&'a Value> {
    let rest = r.strip_prefix("#/")?;
    let mut cur = doc;
    for part in rest.split('/') {
        let part = part.replace("~1", "/").replace("~0", "~");
        cur = cur.get(&part)?;
    }
    Some(cur)
}

fn instantiate(e: &MEndpoint) -> (String, Vec<String>) {
    let mut segs = vec![];
    for s in &e.segs {
        match s {
            Seg::Lit(l) => segs.push(l.clone()),
            Seg::Var(_) => segs.push("val".to_string()),
            Seg::Wild(_) => {
                segs.push("r1".into());
                segs.push("r2".into());
            }
        }
    }
    let raw = format!("/{}", segs.iter().map(|s| pct_encode_segment(s.as_bytes(), 1, true)).collect::<Vec<_>>().join("/"));
    (raw, segs)
}

fn check_doc(c: &DocCase, st: &mut Stats) -> Result<(), Failure> {
    let ds = decls(c);
    let refs: Vec<&Decl> = ds.iter().collect();
    let orders: Vec<Vec<&Decl>> = c.perms.iter().map(|p| permute(&refs, p)).collect();
    let apis: Vec<ApiDescription<DynCtx>> = orders.iter().map(|o| build(o)).collect::<Result<_, _>>()?;
    st.count("apis");
    let table: Vec<MEndpoint> = ds.iter().map(|d| d.e.clone()).collect();
    let n_hidden = ds.iter().filter(|d| !d.e.visible).count();
    let distinct_ranges: BTreeSet<String> = ds.iter().map(|d| d.e.range.text()).collect();
    let mut docs_per_version = vec![];
    for v in pool_probes() {
        let sv = v.semver();
        let mut bytes: Vec<Vec<u8>> = vec![];
        for api in &apis {
            let mut out = Vec::new();
            match catch_quiet(|| api.openapi("verif", sv.clone()).write(&mut out)) {
                Ok(Ok(())) => {}
                Ok(Err(e)) => fail!("openapi-error", "openapi at {} failed: {}", v.text(), e),
                Err(p) => fail!("openapi-panic", "openapi at {} panicked: {}", v.text(), p),
            }
            bytes.push(out);
        }
        // second call on the first description
        let mut again = Vec::new();
        apis[0].openapi("verif", sv.clone()).write(&mut again).map_err(|e| Failure::new("openapi-error", e.to_string()))?;
        st.eval();
        st.count("documents");
        ensure!(bytes[0] == again, "not-deterministic", "two calls of openapi().write() at {} gave different bytes", v.text());
        for (i, b) in bytes.iter().enumerate().skip(1) {
            ensure!(
                &bytes[0] == b,
                "order-dependent-document",
                "document at {} differs between registration order 0 and {}:\n{}\n-- vs --\n{}",
                v.text(),
                i,
                truncate(&String::from_utf8_lossy(&bytes[0]), 1500),
                truncate(&String::from_utf8_lossy(b), 1500)
            );
        }
        let doc: Value = serde_json::from_slice(&bytes[0]).map_err(|e| Failure::new("document-not-json", e.to_string()))?;
        // json() and write() agree
        let j = apis[0].openapi("verif", sv.clone()).json().map_err(|e| Failure::new("openapi-error", e.to_string()))?;
        ensure!(j == doc, "json-vs-write", "json() and write() disagree at {}", v.text());
        // operation set
        let mut got: BTreeSet<(String, String, String)> = BTreeSet::new();
        if let Some(paths) = doc["paths"].as_object() {
            for (path, item) in paths {
                if let Some(item) = item.as_object() {
                    for (method, op) in item {
                        if ["get", "put", "post", "delete", "options", "head", "patch", "trace"].contains(&method.as_str()) {
                            got.insert((method.to_uppercase(), path.clone(), op["operationId"].as_str().unwrap_or("<none>").to_string()));
                        }
                    }
                }
            }
        }
        let want: BTreeSet<(String, String, String)> = ds
            .iter()
            .filter(|d| d.e.visible && d.e.range.contains(&v))
            .map(|d| (d.e.method.clone(), d.e.doc_path(), d.e.op.clone()))
            .collect();
        let filtered_out = ds.iter().any(|d| d.e.visible && !d.e.range.contains(&v));
        if ds.len() >= 4 && n_hidden >= 1 && distinct_ranges.len() >= 2 && filtered_out {
            st.nontrivial(hash_of(&(format!("{:?}", c), v.text())));
        }
        let missing: Vec<_> = want.difference(&got).collect();
        let extra: Vec<_> = got.difference(&want).collect();
        ensure!(
            missing.is_empty(),
            "operation-missing",
            "document at {}: operations {:?} are served and published but not documented (table: {:?})",
            v.text(),
            missing,
            table.iter().map(|e| format!("{}:{} {} [{}] vis={}", e.op, e.method, e.template(), e.range.text(), e.visible)).collect::<Vec<_>>()
        );
        ensure!(
            extra.is_empty(),
            "operation-extra",
            "document at {}: operations {:?} are documented but not (published and served) (table: {:?})",
            v.text(),
            extra,
            table.iter().map(|e| format!("{}:{} {} [{}] vis={}", e.op, e.method, e.template(), e.range.text(), e.visible)).collect::<Vec<_>>()
        );
        // references resolve
        let mut rs = vec![];
        collect_refs(&doc, &mut rs);
        st.count_n("refs", rs.len() as u64);
        for r in &rs {
            ensure!(resolve(&doc, r).is_some(), "dangling-ref", "document at {}: reference {:?} does not resolve", v.text(), r);
        }
        // deprecated flag / tags of documented operations
        for d in ds.iter().filter(|d| d.e.visible && d.e.range.contains(&v)) {
            let op = &doc["paths"][d.e.doc_path()][d.e.method.to_lowercase()];
            let dep = op.get("deprecated").and_then(|x| x.as_bool()).unwrap_or(false);
            ensure!(dep == d.deprecated, "deprecated-flag", "{} {}: deprecated should be {}", d.e.method, d.e.doc_path(), d.deprecated);
            let tags: Vec<String> = op.get("tags").and_then(|t| t.as_array()).map(|a| a.iter().filter_map(|x| x.as_str().map(|s| s.to_string())).collect()).unwrap_or_default();
            ensure!(tags == d.tags, "operation-tags", "{} {}: tags should be {:?}, got {:?}", d.e.method, d.e.doc_path(), d.tags, tags);
        }
        // the document-level tag list: exactly the tags of what is documented at this version
        let want_tags: BTreeSet<String> = ds.iter().filter(|d| d.e.visible && d.e.range.contains(&v)).flat_map(|d| d.tags.iter().cloned()).collect();
        let got_tags: BTreeSet<String> = doc["tags"].as_array().map(|a| a.iter().filter_map(|t| t["name"].as_str().map(|s| s.to_string())).collect()).unwrap_or_default();
        ensure!(
            got_tags == want_tags,
            "document-level-tags",
            "document at {}: top-level tags {:?}, tags of the published endpoints in range {:?} (table: {:?})",
            v.text(),
            got_tags,
            want_tags,
            ds.iter().map(|d| format!("{} {} [{}] vis={} tags={:?}", d.e.method, d.e.template(), d.e.range.text(), d.e.visible, d.tags)).collect::<Vec<_>>()
        );
        docs_per_version.push((v, want.len()));
    }
    // served side, on one description
    let lookup = into_lookup(build(&orders[1])?);
    for v in pool_probes() {
        for d in &ds {
            let (raw, segs) = instantiate(&d.e);
            let member = d.e.range.contains(&v);
            let out = lookup(&d.e.method, &raw, Some(&v));
            st.eval();
            if member {
                // documented or not, it is served, and by this endpoint
                let dd = dispatch(&table, &d.e.method, &segs, Some(&v));
                ensure!(dd.len() == 1, "selftest-table", "table not unambiguous");
                match &out {
                    LookupOut::Found { op, .. } if op == &dd[0].0.op => {
                        if !d.e.visible {
                            st.count("unpublished_served");
                        }
                    }
                    o => fail!(
                        if d.e.visible { "documented-not-served" } else { "unpublished-not-served" },
                        "{} {} @{} (visible={}) should be served by {}: {:?}",
                        d.e.method,
                        raw,
                        v.text(),
                        d.e.visible,
                        d.e.op,
                        o
                    ),
                }
            }
        }
    }
    st.sample(|| {
        json!({"endpoints": ds.iter().map(|d| format!("{}:{} {} [{}] visible={} kind={} tags={:?}", d.e.op, d.e.method, d.e.template(), d.e.range.text(), d.e.visible, d.kind % N_KINDS, d.tags)).collect::<Vec<_>>(),
               "documented_ops_per_version": docs_per_version.iter().map(|(v, n)| format!("{}:{}", v.text(), n)).collect::<Vec<_>>()})
    });
    Ok(())
}

pub fn run(ctx: &mut Ctx) {
    ctx.rule = "endpoint sets from the C01 tree generator with visibility, tags, deprecated flags, reused operation ids and handler shapes from a compiled zoo that forces $refs (named/nested structs, Vec, recursive type, two Rust types with one schema name, custom error type, typed bodies); three registration permutations; every pool version plus two sentinels. Oracle: documented (method, path, operationId) set == {published and v in range}; every $ref resolves; document-level tag list == tags of the documented operations; bytes equal across permutations and across two calls; every endpoint with v in range is served by lookup_route whether published or not. non-trivial = >=4 endpoints, >=1 unpublished, >=2 distinct ranges and a version that filters a published endpoint out; distinct by (case, version)".into();
    ctx.assume("operations, references, tags/deprecated of operations, the document-level tag list and bytes are asserted");
    let n = ctx.tier.pick(3000, 40000);
    ctx.phase("documents", n, doc_case_strategy(), check_doc);
    ctx.require_frac("documents", "unpublished_served", "documents", 0.05);
    ctx.require_frac("documents", "refs", "documents", 0.5);
}
