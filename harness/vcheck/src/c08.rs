//! C08 — converting a type's JSON Schema to OpenAPI preserves its meaning.

use crate::core::*;
use crate::encoders::Style;
use crate::jsv::*;
use crate::zoo::*;
use crate::{ensure, fail};
use dropshot::{ApiDescription, ApiEndpoint, ApiEndpointVersions, HttpError, HttpResponseOk, RequestContext, TypedBody};
use proptest::prelude::*;
use schemars::JsonSchema;
use serde::de::DeserializeOwned;
use serde::{Deserialize, Serialize};
use serde_json::{json, Map, Value};
use std::cell::RefCell;

async fn h_typed<T: JsonSchema + Serialize + DeserializeOwned + Send + Sync + 'static>(
    _: RequestContext<()>,
    b: TypedBody<T>,
) -> Result<HttpResponseOk<T>, HttpError> {
    Ok(HttpResponseOk(b.into_inner()))
}

pub struct Entry {
    pub name: String,
    /// the type's own JSON Schema (schemars, draft-07 settings), as a root document
    pub draft07: Value,
    /// what dropshot is handed: schemars with OpenAPI 3 settings (root document with definitions)
    pub oas_input: Value,
    /// the OpenAPI document, or the panic message of an explicit "unsupported" refusal
    pub doc: Result<Value, String>,
}

impl Entry {
    pub fn request_schema(&self) -> Option<&Value> {
        self.doc.as_ref().ok().map(|d| &d["paths"]["/t"]["put"]["requestBody"]["content"]["application/json"]["schema"])
    }
    pub fn response_schema(&self) -> Option<&Value> {
        self.doc.as_ref().ok().map(|d| &d["paths"]["/t"]["put"]["responses"]["200"]["content"]["application/json"]["schema"])
    }
}

pub fn publish<T: JsonSchema + Serialize + DeserializeOwned + Send + Sync + 'static>(name: &str) -> Entry {
    let draft07 = serde_json::to_value(schemars::gen::SchemaSettings::draft07().into_generator().into_root_schema_for::<T>()).unwrap();
    let oas_input = serde_json::to_value(schemars::gen::SchemaSettings::openapi3().into_generator().into_root_schema_for::<T>()).unwrap();
    let doc = catch_quiet(|| {
        let mut api: ApiDescription<()> = ApiDescription::new();
        api.register(ApiEndpoint::new("op".to_string(), h_typed::<T>, http::Method::PUT, "application/json", "/t", ApiEndpointVersions::All)).unwrap();
        api.openapi("zoo", semver::Version::new(1, 0, 0)).json().unwrap()
    });
    Entry { name: name.to_string(), draft07, oas_input, doc }
}

macro_rules! zoo {
    ($($t:ty),* $(,)?) => { vec![ $( publish::<$t>(stringify!($t)) ),* ] };
}

#[allow(deprecated)]
pub fn zoo_entries() -> Vec<Entry> {
    zoo![
        Scalars, Options, Inner, Seqs, Maps, Nested, Deeper, Recursive, UnitEnum, RenamedUnit, DocUnit, External, Internal, Adjacent,
        Untagged, Strict, Renamed, WithDefaults, Ranges, Lengths, Patterns, Documented, Formats, Tuples, Newtype, Transparent,
        Flattened, FlattenedEnum, UsesGeneric, DeprecatedStruct, HasDeprecated, WithExample, ReadWrite, ValueHolder, Bytes, MixedDoc,
        BigInts, EnumHolder, Bounds2, Wrappers, LowerUnit, TaggedNewtype, AdjDoc, Defaults2, Lengths2, Ranges2, SetsAndTuples, AllOptional, StrictRenamed, UntaggedNamed, RefHolder, SchemaOnlyStrict, Titled, Chars, Nums, SignedNonZero, WithTuple, Overlap, NumOverlap, OverlapHolder,
        u8, i64, f64, bool, String, char, Vec<u32>, Vec<Inner>, Option<Inner>, Option<u16>, std::collections::BTreeMap<String, Inner>,
        (), Vec<Option<UnitEnum>>, Generic<Option<Inner>>, Box<Recursive>, [Inner; 2], uuid::Uuid, chrono::DateTime<chrono::Utc>,
        std::collections::BTreeSet<u8>, Option<Vec<External>>, std::collections::BTreeMap<String, Vec<Adjacent>>,
    ]
}

thread_local! {
    static ZOO: Vec<Entry> = zoo_entries();
}

// ---- differential on generated instances -----------------------------------

#[derive(Clone, Debug, Serialize, Deserialize)]
struct InstCase {
    ty: u16,
    seed: u64,
    want_valid: bool,
}

/// converter refusals that the code documents as unsupported
fn is_documented_unsupported(msg: &str) -> bool {
    msg.contains("type array is unsupported") || msg.contains("tuple-like arrays") || msg.contains("can't have both a type and subschemas") || msg.contains("invalid subschema")
}

fn differential(e: &Entry, inst: &Value, st: &mut Stats) -> Result<(), Failure> {
    let doc = match &e.doc {
        Ok(d) => d,
        Err(_) => return Ok(()),
    };
    let v0 = Validator::new(&e.draft07, Dialect::Json07);
    let orig = v0.valid(&e.draft07, inst);
    if !v0.unsupported.borrow().is_empty() {
        st.count("reference_validator_unsupported");
        return Ok(());
    }
    for (side, schema) in [("request", e.request_schema().unwrap()), ("response", e.response_schema().unwrap())] {
        let v1 = Validator::new(doc, Dialect::Oas30);
        let publ = v1.valid(schema, inst);
        if !v1.unsupported.borrow().is_empty() {
            fail!(
                "published-schema-not-oas30",
                "type {}: the published {} schema uses a construct outside OpenAPI 3.0: {:?}",
                e.name,
                side,
                v1.unsupported.borrow()
            );
        }
        st.eval();
        if !orig {
            st.count("instance_rejected_by_type_schema");
        }
        ensure!(
            orig == publ,
            format!("verdict-differs:{}", if orig { "published-rejects-valid" } else { "published-accepts-invalid" }),
            "type {}: instance {} is {} by the type's own JSON Schema but {} by the published {} schema.\n own schema: {}\n published: {}",
            e.name,
            truncate(&inst.to_string(), 300),
            if orig { "accepted" } else { "rejected" },
            if publ { "accepted" } else { "rejected" },
            side,
            truncate(&e.draft07.to_string(), 1200),
            truncate(&schema.to_string(), 800)
        );
    }
    Ok(())
}

fn check_inst(c: &InstCase, st: &mut Stats) -> Result<(), Failure> {
    ZOO.with(|zoo| {
        let e = &zoo[pick_idx(c.ty, zoo.len())];
        if let Err(p) = &e.doc {
            st.count("unsupported_type");
            ensure!(is_documented_unsupported(p), "converter-panic", "type {}: publishing panicked: {}", e.name, p);
            return Ok(());
        }
        let mut g = Gen { root: &e.draft07, st: Style(c.seed), conservative: false };
        let inst = g.instance(&e.draft07, c.want_valid, 0);
        st.count(&format!("type:{}", e.name));
        let before = st.get("instance_rejected_by_type_schema");
        differential(e, &inst, st)?;
        if st.get("instance_rejected_by_type_schema") > before {
            // a constraint actually bit
            st.nontrivial(hash_of(&(e.name.clone(), inst.to_string())));
        }
        st.sample(|| json!({"type": e.name, "instance": truncate(&inst.to_string(), 200)}));
        Ok(())
    })
}

// ---- structural preservation -------------------------------------------------

const CONSTRAINTS: [&str; 14] = [
    "required", "enum", "multipleOf", "minLength", "maxLength", "pattern", "minItems", "maxItems", "uniqueItems", "minProperties", "maxProperties", "format", "type", "const",
];
const ANNOTATIONS: [&str; 8] = ["title", "description", "default", "nullable", "deprecated", "readOnly", "writeOnly", "example"];

struct Walk<'a> {
    input_root: &'a Value,
    doc: &'a Value,
    problems: RefCell<Vec<String>>,
    visited: RefCell<std::collections::BTreeSet<String>>,
    keywords_seen: RefCell<std::collections::BTreeSet<String>>,
}

impl<'a> Walk<'a> {
    fn deref_input(&self, v: &'a Value) -> &'a Value {
        if let Some(r) = v.get("$ref").and_then(|r| r.as_str()) {
            // schemars (openapi3 settings) refers to #/components/schemas/X but keeps the definitions under "definitions"
            let name = r.rsplit('/').next().unwrap_or("");
            if let Some(t) = self.input_root.get("definitions").and_then(|d| d.get(name)) {
                return t;
            }
        }
        v
    }
    fn deref_pub(&self, v: &'a Value) -> &'a Value {
        if let Some(r) = v.get("$ref").and_then(|r| r.as_str()) {
            let name = r.rsplit('/').next().unwrap_or("");
            if let Some(t) = self.doc.get("components").and_then(|c| c.get("schemas")).and_then(|d| d.get(name)) {
                return t;
            }
        }
        v
    }
    fn cmp(&self, path: &str, input: &'a Value, publ: &'a Value, top_inline: bool) {
        // references must stay references to the same name
        let ir = input.get("$ref").and_then(|r| r.as_str());
        let pr = publ.get("$ref").and_then(|r| r.as_str());
        if ir.is_some() || pr.is_some() {
            if ir.map(|r| r.rsplit('/').next()) != pr.map(|r| r.rsplit('/').next()) {
                self.problems.borrow_mut().push(format!("{}: reference {:?} became {:?}", path, ir, pr));
                return;
            }
            let name = ir.unwrap().rsplit('/').next().unwrap().to_string();
            if !self.visited.borrow_mut().insert(name.clone()) {
                return;
            }
            let i2 = self.deref_input(input);
            let p2 = self.deref_pub(publ);
            if std::ptr::eq(p2, publ) {
                self.problems.borrow_mut().push(format!("{}: reference {} does not resolve in the document", path, name));
                return;
            }
            return self.cmp(&format!("#{}", name), i2, p2, false);
        }
        let (io, po) = match (input, publ) {
            (Value::Bool(true), p) => {
                if p.as_object().map(|o| o.keys().all(|k| k == "title")).unwrap_or(false) || p == &Value::Bool(true) {
                    return;
                }
                self.problems.borrow_mut().push(format!("{}: 'true' schema became {}", path, p));
                return;
            }
            (Value::Object(i), Value::Object(p)) => (i, p),
            (i, p) => {
                self.problems.borrow_mut().push(format!("{}: {} became {}", path, i, p));
                return;
            }
        };
        // the unit type idiom: {type: null} is published as {type: string, enum: [null]}
        if io.get("type") == Some(&json!("null")) {
            return;
        }
        for k in CONSTRAINTS {
            if let Some(v) = io.get(k) {
                self.keywords_seen.borrow_mut().insert(k.to_string());
                let same = match po.get(k) {
                    Some(w) => {
                        if k == "required" || k == "enum" {
                            // order of required names is not significant
                            let mut a: Vec<String> = v.as_array().map(|a| a.iter().map(|x| x.to_string()).collect()).unwrap_or_default();
                            let mut b: Vec<String> = w.as_array().map(|a| a.iter().map(|x| x.to_string()).collect()).unwrap_or_default();
                            if k == "required" {
                                a.sort();
                                b.sort();
                            }
                            a == b
                        } else {
                            json_eq(v, w)
                        }
                    }
                    None => k == "uniqueItems" && v == &Value::Bool(false) || k == "required" && v.as_array().map(|a| a.is_empty()).unwrap_or(false),
                };
                if !same {
                    self.problems.borrow_mut().push(format!("{}: constraint {} = {} became {:?}", path, k, v, po.get(k)));
                }
            }
        }
        // numeric bounds: draft-style numeric exclusive bounds become value + boolean flag
        for (lo, xlo) in [("minimum", "exclusiveMinimum"), ("maximum", "exclusiveMaximum")] {
            let want: Option<(f64, bool)> = match (io.get(lo).and_then(|v| v.as_f64()), io.get(xlo)) {
                (Some(m), Some(Value::Bool(true))) => Some((m, true)),
                (Some(m), _) => Some((m, false)),
                (None, Some(v)) if v.is_number() => Some((v.as_f64().unwrap(), true)),
                _ => None,
            };
            if let Some((m, ex)) = want {
                self.keywords_seen.borrow_mut().insert(lo.to_string());
                let got_m = po.get(lo).and_then(|v| v.as_f64());
                let got_ex = po.get(xlo) == Some(&Value::Bool(true));
                // whole numbers are compared exactly (an i64 next to 2^63 and the f64 2^63 are equal as f64)
                let exact = |v: &Value| -> Option<i128> {
                    if let Some(i) = v.as_i64() {
                        Some(i as i128)
                    } else if let Some(u) = v.as_u64() {
                        Some(u as i128)
                    } else {
                        v.as_f64().filter(|f| f.fract() == 0.0 && f.abs() < 1e37).map(|f| f as i128)
                    }
                };
                let want_exact = io.get(lo).filter(|v| v.is_number()).or_else(|| io.get(xlo).filter(|v| v.is_number())).and_then(exact);
                let got_exact = po.get(lo).and_then(exact);
                let exact_differs = matches!((want_exact, got_exact), (Some(a), Some(b)) if a != b);
                if got_m != Some(m) || got_ex != ex || exact_differs {
                    self.problems.borrow_mut().push(format!("{}: bound {} = {} (exclusive {}) became {:?} (exclusive {})", path, lo, m, ex, po.get(lo), got_ex));
                }
            }
        }
        for k in ANNOTATIONS {
            if let Some(v) = io.get(k) {
                self.keywords_seen.borrow_mut().insert(k.to_string());
                if k == "title" && top_inline {
                    continue; // an inline top-level schema is titled with the type name
                }
                if (k == "deprecated" || k == "readOnly" || k == "writeOnly" || k == "nullable") && v == &Value::Bool(false) {
                    continue;
                }
                if po.get(k).map(|w| json_eq(v, w)) != Some(true) {
                    self.problems.borrow_mut().push(format!("{}: annotation {} = {} became {:?}", path, k, truncate(&v.to_string(), 80), po.get(k)));
                }
            }
        }
        for (k, v) in io {
            if k.starts_with("x-") && po.get(k) != Some(v) {
                self.problems.borrow_mut().push(format!("{}: extension {} = {} became {:?}", path, k, v, po.get(k)));
            }
        }
        // children
        if let Some(props) = io.get("properties").and_then(|p| p.as_object()) {
            let pp = po.get("properties").and_then(|p| p.as_object());
            for (k, sub) in props {
                match pp.and_then(|p| p.get(k)) {
                    Some(ps) => self.cmp(&format!("{}/properties/{}", path, k), sub, ps, false),
                    None => self.problems.borrow_mut().push(format!("{}: property {} is missing from the published schema", path, k)),
                }
            }
            if let Some(pp) = pp {
                for k in pp.keys() {
                    if !props.contains_key(k) {
                        self.problems.borrow_mut().push(format!("{}: property {} was invented", path, k));
                    }
                }
            }
        }
        match (io.get("additionalProperties"), po.get("additionalProperties")) {
            (None, None) => {}
            (Some(a), Some(b)) if a.is_boolean() || b.is_boolean() => {
                if a != b {
                    self.problems.borrow_mut().push(format!("{}: additionalProperties {} became {}", path, a, b));
                }
            }
            (Some(a), Some(b)) => self.cmp(&format!("{}/additionalProperties", path), a, b, false),
            (a, b) => self.problems.borrow_mut().push(format!("{}: additionalProperties {:?} became {:?}", path, a, b)),
        }
        match (io.get("items"), po.get("items")) {
            (None, None) => {}
            (Some(a), Some(b)) if !a.is_array() => self.cmp(&format!("{}/items", path), a, b, false),
            (a, b) => self.problems.borrow_mut().push(format!("{}: items {:?} became {:?}", path, a, b)),
        }
        for comb in ["allOf", "anyOf", "oneOf"] {
            match (io.get(comb).and_then(|v| v.as_array()), po.get(comb).and_then(|v| v.as_array())) {
                (None, None) => {}
                (Some(a), Some(b)) if a.len() == b.len() => {
                    self.keywords_seen.borrow_mut().insert(comb.to_string());
                    for (i, (x, y)) in a.iter().zip(b).enumerate() {
                        self.cmp(&format!("{}/{}/{}", path, comb, i), x, y, false);
                    }
                }
                (a, b) => self.problems.borrow_mut().push(format!("{}: {} with {:?} branches became {:?} branches", path, comb, a.map(|a| a.len()), b.map(|b| b.len()))),
            }
        }
        match (io.get("not"), po.get("not")) {
            (None, None) => {}
            (Some(a), Some(b)) => self.cmp(&format!("{}/not", path), a, b, false),
            (a, b) => self.problems.borrow_mut().push(format!("{}: not {:?} became {:?}", path, a, b)),
        }
    }
}

fn check_structure(ix: &u16, st: &mut Stats) -> Result<(), Failure> {
    ZOO.with(|zoo| {
        let e = &zoo[*ix as usize % zoo.len()];
        let Ok(doc) = &e.doc else {
            return Ok(());
        };
        for (side, publ) in [("request", e.request_schema().unwrap()), ("response", e.response_schema().unwrap())] {
            let w = Walk { input_root: &e.oas_input, doc, problems: Default::default(), visited: Default::default(), keywords_seen: Default::default() };
            let top_inline = publ.get("$ref").is_none();
            // a referenceable top-level type is published as a $ref to its component
            let target = if let Some(r) = publ.get("$ref").and_then(|r| r.as_str()) {
                let n = r.rsplit('/').next().unwrap();
                &doc["components"]["schemas"][n]
            } else {
                publ
            };
            // (schemars adds a title to every *root* schema; as a component it has none)
            let _ = top_inline;
            w.cmp("", &e.oas_input, target, true);
            st.eval();
            let seen = w.keywords_seen.borrow().len();
            if seen >= 3 {
                st.nontrivial(hash_of(&(e.name.clone(), side)));
            }
            for k in w.keywords_seen.borrow().iter() {
                st.count(&format!("kw:{}", k));
            }
            let problems = w.problems.borrow();
            ensure!(
                problems.is_empty(),
                "keyword-dropped-or-altered",
                "type {} ({} schema): {}\n input: {}\n published: {}",
                e.name,
                side,
                problems.join("; "),
                truncate(&e.oas_input.to_string(), 1000),
                truncate(&publ.to_string(), 1000)
            );
        }
        st.sample(|| json!({"type": e.name, "published_request_schema": truncate(&e.request_schema().unwrap().to_string(), 300)}));
        Ok(())
    })
}

// ---- enrichment: statement-vocabulary keywords injected at run time ----------

thread_local! {
    static DYN_SCHEMA: RefCell<(Value, Map<String, Value>)> = RefCell::new((Value::Bool(true), Map::new()));
}

#[derive(Serialize, Deserialize)]
pub struct DynRef(Value);
impl JsonSchema for DynRef {
    fn schema_name() -> String {
        "DynRef".into()
    }
    fn json_schema(g: &mut schemars::gen::SchemaGenerator) -> schemars::schema::Schema {
        DYN_SCHEMA.with(|d| {
            let (s, defs) = &*d.borrow();
            for (k, v) in defs {
                g.definitions_mut().insert(k.clone(), serde_json::from_value(v.clone()).unwrap());
            }
            serde_json::from_value(s.clone()).unwrap()
        })
    }
}
#[derive(Serialize, Deserialize)]
pub struct DynInline(Value);
impl JsonSchema for DynInline {
    fn schema_name() -> String {
        "DynInline".into()
    }
    fn is_referenceable() -> bool {
        false
    }
    fn json_schema(g: &mut schemars::gen::SchemaGenerator) -> schemars::schema::Schema {
        DynRef::json_schema(g)
    }
}

#[derive(Clone, Debug, Serialize, Deserialize)]
struct EnrichCase {
    ty: u16,
    edits: Vec<(u16, u8, i16)>,
    inline: bool,
    seed: u64,
}

/// collect JSON-pointer-ish paths of all schema objects in a (openapi3-settings) schema
fn schema_nodes(v: &Value, path: Vec<String>, out: &mut Vec<Vec<String>>) {
    if let Value::Object(o) = v {
        if o.contains_key("$ref") {
            return;
        }
        out.push(path.clone());
        if let Some(Value::Object(p)) = o.get("properties") {
            for (k, s) in p {
                let mut q = path.clone();
                q.push("properties".into());
                q.push(k.clone());
                schema_nodes(s, q, out);
            }
        }
        for k in ["items", "additionalProperties", "not"] {
            if let Some(s @ Value::Object(_)) = o.get(k) {
                let mut q = path.clone();
                q.push(k.into());
                schema_nodes(s, q, out);
            }
        }
        for k in ["allOf", "anyOf", "oneOf"] {
            if let Some(Value::Array(a)) = o.get(k) {
                for (i, s) in a.iter().enumerate() {
                    let mut q = path.clone();
                    q.push(k.into());
                    q.push(i.to_string());
                    schema_nodes(s, q, out);
                }
            }
        }
    }
}

fn node_mut<'a>(v: &'a mut Value, path: &[String]) -> Option<&'a mut Map<String, Value>> {
    let mut cur = v;
    for p in path {
        cur = match cur {
            Value::Object(o) => o.get_mut(p)?,
            Value::Array(a) => a.get_mut(p.parse::<usize>().ok()?)?,
            _ => return None,
        };
    }
    cur.as_object_mut()
}

/// add one keyword from the statement's vocabulary, fitting the node's type
fn enrich(node: &mut Map<String, Value>, kind: u8, n: i16) {
    let ty = node.get("type").and_then(|t| t.as_str()).map(|s| s.to_string());
    let has_comb = ["allOf", "anyOf", "oneOf", "not"].iter().any(|k| node.contains_key(*k));
    let n = n as i64;
    match (kind % 24, ty.as_deref()) {
        (0, _) => {
            node.insert("title".into(), json!(format!("Title {}", n)));
        }
        (1, _) => {
            node.insert("description".into(), json!(format!("descr ünï {}", n)));
        }
        (2, _) => {
            node.insert("deprecated".into(), json!(true));
        }
        (3, _) => {
            node.insert("readOnly".into(), json!(true));
        }
        (4, _) => {
            node.insert("writeOnly".into(), json!(true));
        }
        (5, _) => {
            node.insert(format!("x-verif-{}", n.unsigned_abs() % 5), json!({"k": n, "list": [1, "two", null]}));
        }
        (6, _) => {
            node.insert("example".into(), json!({"any": ["thing", n]}));
        }
        (7, _) => {
            node.insert("default".into(), json!(n));
        }
        (8, Some(_)) if !has_comb => {
            node.insert("nullable".into(), json!(true));
        }
        (9, Some("integer")) | (9, Some("number")) => {
            // mostly small whole numbers; sometimes a limit far outside the i64 range or a fractional one
            let v = match n.unsigned_abs() % 9 {
                0 => -1.0e19 - (n % 50) as f64,
                1 => (n % 50) as f64 + 0.5,
                _ => (n % 50) as f64,
            };
            node.insert("minimum".into(), json!(v));
        }
        (10, Some("integer")) | (10, Some("number")) => {
            let v = match n.unsigned_abs() % 9 {
                0 => 18446744073709551615.0,
                1 => (n % 50 + 60) as f64 + 0.25,
                2 => 9223372036854775807.0,
                _ => (n % 50 + 60) as f64,
            };
            node.insert("maximum".into(), json!(v));
        }
        (11, Some("integer")) | (11, Some("number")) if !node.contains_key("minimum") => {
            node.insert("exclusiveMinimum".into(), json!((n % 50) as f64));
        }
        (12, Some("integer")) | (12, Some("number")) if !node.contains_key("maximum") => {
            node.insert("exclusiveMaximum".into(), json!((n % 50 + 60) as f64));
        }
        (13, Some("integer")) | (13, Some("number")) => {
            node.insert("multipleOf".into(), json!(((n.unsigned_abs() % 7) + 1) as f64));
        }
        (14, Some("string")) if !node.contains_key("enum") => {
            node.insert("minLength".into(), json!(n.unsigned_abs() % 4));
        }
        (15, Some("string")) if !node.contains_key("enum") => {
            node.insert("maxLength".into(), json!(n.unsigned_abs() % 6 + 3));
        }
        (16, Some("string")) if !node.contains_key("enum") => {
            node.insert("pattern".into(), json!(["^[a-z]*$", "^.{0,4}$", "[0-9]", "^a"][(n.unsigned_abs() % 4) as usize]));
        }
        (17, Some("array")) => {
            node.insert("minItems".into(), json!(n.unsigned_abs() % 3));
        }
        (18, Some("array")) => {
            node.insert("maxItems".into(), json!(n.unsigned_abs() % 3 + 2));
        }
        (19, Some("array")) => {
            node.insert("uniqueItems".into(), json!(true));
        }
        (20, Some("object")) => {
            node.insert("minProperties".into(), json!(n.unsigned_abs() % 3));
        }
        (21, Some("object")) => {
            node.insert("maxProperties".into(), json!(n.unsigned_abs() % 3 + 2));
        }
        (22, Some("object")) if !node.contains_key("additionalProperties") => {
            node.insert("additionalProperties".into(), if n % 2 == 0 { json!(false) } else { json!({"type": "integer", "format": "int32"}) });
        }
        (23, Some("string")) if !node.contains_key("enum") && !node.contains_key("format") => {
            node.insert("enum".into(), json!(["a", "bb", "ccc"]));
        }
        _ => {}
    }
}

/// translate a (openapi3-settings) schema into the equivalent draft-07
/// reading used as the oracle's "own schema": nullable -> handled natively by
/// the Json07 validator, definitions moved under the path the refs use
fn as_root(schema: &Value, defs: &Map<String, Value>) -> Value {
    let mut root = schema.clone();
    if let Value::Object(o) = &mut root {
        o.insert("components".into(), json!({"schemas": Value::Object(defs.clone())}));
    }
    root
}

fn check_enriched(c: &EnrichCase, st: &mut Stats) -> Result<(), Failure> {
    // base schema: a zoo type's openapi3-settings schema and its definitions
    let (name, mut schema, defs): (String, Value, Map<String, Value>) = ZOO.with(|zoo| {
        let e = &zoo[pick_idx(c.ty, zoo.len())];
        let mut s = e.oas_input.clone();
        let defs = s.as_object_mut().and_then(|o| o.remove("definitions")).and_then(|d| d.as_object().cloned()).unwrap_or_default();
        if let Some(o) = s.as_object_mut() {
            o.remove("$schema");
        }
        (e.name.clone(), s, defs)
    });
    let mut nodes = vec![];
    schema_nodes(&schema, vec![], &mut nodes);
    if nodes.is_empty() {
        return Ok(());
    }
    let mut applied = 0;
    for (at, kind, n) in &c.edits {
        let path = nodes[pick_idx(*at, nodes.len())].clone();
        if let Some(node) = node_mut(&mut schema, &path) {
            let before = node.len();
            enrich(node, *kind, *n);
            if node.len() != before {
                applied += 1;
            }
        }
    }
    DYN_SCHEMA.with(|d| *d.borrow_mut() = (schema.clone(), defs.clone()));
    let doc = catch_quiet(|| {
        let mut api: ApiDescription<()> = ApiDescription::new();
        if c.inline {
            api.register(ApiEndpoint::new("op".to_string(), h_typed::<DynInline>, http::Method::PUT, "application/json", "/t", ApiEndpointVersions::All)).unwrap();
        } else {
            api.register(ApiEndpoint::new("op".to_string(), h_typed::<DynRef>, http::Method::PUT, "application/json", "/t", ApiEndpointVersions::All)).unwrap();
        }
        api.openapi("zoo", semver::Version::new(1, 0, 0)).json().unwrap()
    });
    st.eval();
    let doc = match doc {
        Ok(d) => d,
        Err(p) => {
            st.count("unsupported_schema");
            ensure!(is_documented_unsupported(&p) || p.contains("invalid"), "converter-panic", "enriched schema of {} made the converter panic: {} :: {}", name, p, truncate(&schema.to_string(), 600));
            return Ok(());
        }
    };
    let entry = Entry { name: format!("{}+{} keywords", name, applied), draft07: as_root(&schema, &defs), oas_input: { let mut s = schema.clone(); s.as_object_mut().map(|o| o.insert("definitions".into(), Value::Object(defs.clone()))); s }, doc: Ok(doc) };
    st.count("enriched_schemas");
    st.count_n("keywords_added", applied);
    // structural
    let docref = entry.doc.as_ref().unwrap();
    for (side, publ) in [("request", entry.request_schema().unwrap()), ("response", entry.response_schema().unwrap())] {
        let w = Walk { input_root: &entry.oas_input, doc: docref, problems: Default::default(), visited: Default::default(), keywords_seen: Default::default() };
        // a referenceable top-level type is published as a $ref to its component
        let target = if let Some(r) = publ.get("$ref").and_then(|r| r.as_str()) {
            let n = r.rsplit('/').next().unwrap();
            &docref["components"]["schemas"][n]
        } else {
            publ
        };
        w.cmp("", &entry.oas_input, target, !c.edits.iter().any(|(_, k, _)| k % 24 == 0) || publ.get("$ref").is_none());
        let problems = w.problems.borrow();
        ensure!(
            problems.is_empty(),
            "keyword-dropped-or-altered",
            "{} ({} schema): {}\n input: {}\n published: {}",
            entry.name,
            side,
            problems.join("; "),
            truncate(&schema.to_string(), 1000),
            truncate(&target.to_string(), 1000)
        );
    }
    // differential on a handful of instances
    let mut g = Gen { root: &entry.draft07, st: Style(c.seed), conservative: false };
    let mut rejected = 0;
    for i in 0..8 {
        let inst = g.instance(&entry.draft07, i % 2 == 0, 0);
        let before = st.get("instance_rejected_by_type_schema");
        differential(&entry, &inst, st)?;
        if st.get("instance_rejected_by_type_schema") > before {
            rejected += 1;
        }
    }
    if applied >= 2 && rejected >= 1 {
        st.nontrivial(hash_of(&schema.to_string()));
    }
    st.sample(|| json!({"base_type": name, "keywords_added": applied, "schema": truncate(&schema.to_string(), 400)}));
    Ok(())
}

pub fn run(ctx: &mut Ctx) {
    ctx.rule = "real schemars output for a compiled zoo of ~70 types (numeric widths, formats, options, sequences, sets, maps, nested/recursive/generic structs, enums in all four serde representations, flatten, deny_unknown_fields, range/length/regex validation attributes, docs, defaults, deprecated, examples) published as request body and response; plus run-time enrichment of those schemas with keywords from the statement's vocabulary at random positions, published inline and by reference. Oracles: (1) differential - verdict of a JSON-Schema validator on the type's own schema (schemars draft-07 settings) == verdict of an OpenAPI-3.0 validator on the published schema, on schema-directed valid and near-miss instances; (2) structural - every constraint keyword and listed annotation of the schema handed to dropshot has its dialect image in the published schema. non-trivial: instance that the type's own schema rejects (a constraint bit); type with >= 3 distinct keywords; enriched schema with >= 2 added keywords and a rejected instance".into();
    ctx.assume("schemas the converter refuses with one of its explicit 'unsupported' panics are counted, not judged; a title on an inline top-level schema may be replaced by the type name; numeric limits added by enrichment are mostly small whole numbers, sometimes beyond the i64 range or fractional");
    let n_types = ZOO.with(|z| z.len()) as u16;
    ctx.enumerate("structure", 0..n_types, true, check_structure);
    let n = ctx.tier.pick(150000, 2000000);
    let strat = (any::<u16>(), any::<u64>(), any::<bool>()).prop_map(|(ty, seed, want_valid)| InstCase { ty, seed, want_valid });
    ctx.phase("differential", n, strat, check_inst);
    ctx.require_frac("differential", "instance_rejected_by_type_schema", "instance_rejected_by_type_schema", 1.0);
    let n = ctx.tier.pick(12000, 200000);
    let strat = (any::<u16>(), proptest::collection::vec((any::<u16>(), 0u8..24, any::<i16>()), 1..8), any::<bool>(), any::<u64>())
        .prop_map(|(ty, edits, inline, seed)| EnrichCase { ty, edits, inline, seed });
    ctx.phase("enriched", n, strat, check_enriched);
    ctx.require_frac("enriched", "enriched_schemas", "enriched_schemas", 1.0);
}
