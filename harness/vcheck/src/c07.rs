//! C07 — the OpenAPI document tells the truth about requests and responses.
//! Requests are built from the document alone and sent to a live server;
//! responses are validated against what the document says.

use crate::core::*;
use crate::dynapi::start_server;
use crate::encoders::{enc_component, enc_path_segment, Style};
use crate::http1;
use crate::jsv::*;
use crate::zoo::*;
use crate::{ensure, fail};
use dropshot::{ApiDescription, ApiEndpoint, ApiEndpointVersions, HttpError, HttpResponseOk, RequestContext, TypedBody};
use proptest::prelude::*;
use schemars::JsonSchema;
use serde::de::DeserializeOwned;
use serde::{Deserialize, Serialize};
use serde_json::{json, Value};
use std::sync::atomic::{AtomicU64, Ordering};
use std::sync::Arc;
use std::time::Duration;

#[derive(Default)]
pub struct ZooCtx {
    pub entered: AtomicU64,
}

async fn h_zoo<T: JsonSchema + Serialize + DeserializeOwned + Send + Sync + 'static>(
    rq: RequestContext<ZooCtx>,
    b: TypedBody<T>,
) -> Result<HttpResponseOk<T>, HttpError> {
    rq.context().entered.fetch_add(1, Ordering::SeqCst);
    Ok(HttpResponseOk(b.into_inner()))
}

#[derive(Deserialize, JsonSchema)]
pub struct SeedQuery {
    pub seed: u32,
}

/// returns a value of T that does not depend on anything the document says:
/// candidates are drawn from the type's own (draft-07) schema and the first
/// one serde accepts is returned
async fn h_zoo_value<T: JsonSchema + Serialize + DeserializeOwned + Send + Sync + 'static>(
    rq: RequestContext<ZooCtx>,
    q: dropshot::Query<SeedQuery>,
) -> Result<HttpResponseOk<T>, HttpError> {
    rq.context().entered.fetch_add(1, Ordering::SeqCst);
    let root = serde_json::to_value(schemars::gen::SchemaSettings::draft07().into_generator().into_root_schema_for::<T>()).unwrap();
    let mut st = Style(q.into_inner().seed as u64 ^ 0xabcdef);
    for _ in 0..60 {
        let mut g = Gen { root: &root, st: Style(st.next()), conservative: false };
        let mut inst = g.instance(&root, true, 0);
        fix_formats(&root, &root, &mut inst, &mut st, 0);
        if let Ok(v) = serde_json::from_value::<T>(inst) {
            // only values the type's own schema admits (validation attributes
            // such as ranges are not enforced by serde)
            let back = serde_json::to_value(&v).unwrap();
            let val = Validator::new(&root, Dialect::Json07);
            if val.valid(&root, &back) && val.unsupported.borrow().is_empty() {
                return Ok(HttpResponseOk(v));
            }
        }
    }
    Err(HttpError::for_unavail(None, "no value found".into()))
}

#[derive(Deserialize, JsonSchema)]
pub struct LabelQuery {
    pub label: String,
}
#[derive(Serialize, JsonSchema)]
pub struct LabelHeaders {
    #[serde(rename = "x-label")]
    pub label: String,
}
/// an endpoint-specific error type: framework-generated errors for this
/// endpoint must come out in *this* shape, as the document says
#[derive(Debug, Serialize, JsonSchema)]
pub struct ZooError {
    pub code: u16,
    pub detail: String,
}
impl std::fmt::Display for ZooError {
    fn fmt(&self, f: &mut std::fmt::Formatter<'_>) -> std::fmt::Result {
        write!(f, "zoo error {}", self.code)
    }
}
impl dropshot::HttpResponseError for ZooError {
    fn status_code(&self) -> dropshot::ErrorStatusCode {
        dropshot::ErrorStatusCode::from_u16(self.code).unwrap_or(dropshot::ErrorStatusCode::INTERNAL_SERVER_ERROR)
    }
}
impl From<HttpError> for ZooError {
    fn from(e: HttpError) -> Self {
        ZooError { code: e.status_code.as_u16(), detail: e.external_message }
    }
}

/// echoes a query value in a declared response header: for values that are
/// not legal header values the *framework* has to produce the error
async fn h_mayfail(
    rq: RequestContext<ZooCtx>,
    q: dropshot::Query<LabelQuery>,
) -> Result<dropshot::HttpResponseHeaders<HttpResponseOk<Inner>, LabelHeaders>, ZooError> {
    rq.context().entered.fetch_add(1, Ordering::SeqCst);
    Ok(dropshot::HttpResponseHeaders::new(HttpResponseOk(Inner { x: 1, y: None }), LabelHeaders { label: q.into_inner().label }))
}

/// a second endpoint-specific error type with the same bare Rust name (and schema name) in another
/// module and a different shape: each endpoint's errors must be documented with its own type
pub mod alt {
    use super::*;
    #[derive(Debug, Serialize, JsonSchema)]
    pub struct ZooError {
        pub reason: String,
        pub retryable: bool,
        #[serde(skip)]
        pub status: u16,
    }
    impl std::fmt::Display for ZooError {
        fn fmt(&self, f: &mut std::fmt::Formatter<'_>) -> std::fmt::Result {
            write!(f, "alt zoo error {}", self.reason)
        }
    }
    impl dropshot::HttpResponseError for ZooError {
        fn status_code(&self) -> dropshot::ErrorStatusCode {
            dropshot::ErrorStatusCode::from_u16(self.status).unwrap_or(dropshot::ErrorStatusCode::INTERNAL_SERVER_ERROR)
        }
    }
    impl From<HttpError> for ZooError {
        fn from(e: HttpError) -> Self {
            ZooError { reason: e.external_message, retryable: false, status: e.status_code.as_u16() }
        }
    }
    pub async fn h_mayfail_alt(
        rq: RequestContext<ZooCtx>,
        q: dropshot::Query<LabelQuery>,
    ) -> Result<dropshot::HttpResponseHeaders<HttpResponseOk<Inner>, LabelHeaders>, ZooError> {
        rq.context().entered.fetch_add(1, Ordering::SeqCst);
        Ok(dropshot::HttpResponseHeaders::new(HttpResponseOk(Inner { x: 2, y: None }), LabelHeaders { label: q.into_inner().label }))
    }
}

macro_rules! zoo_api {
    ($api:ident; $($t:ty),* $(,)?) => {{
        let mut i = 0;
        $(
            let name = format!("zoo{}", i);
            $api.register(ApiEndpoint::new(name.clone(), h_zoo::<$t>, http::Method::PUT, "application/json", &format!("/zoo/{}", name), ApiEndpointVersions::All).description(stringify!($t))).unwrap();
            $api.register(ApiEndpoint::new(format!("{}_value", name), h_zoo_value::<$t>, http::Method::GET, "application/json", &format!("/zoo/{}/value", name), ApiEndpointVersions::All).description(stringify!($t))).unwrap();
            i += 1;
        )*
        let _ = i;
    }};
}

#[allow(deprecated)]
pub fn zoo_echo_api() -> ApiDescription<ZooCtx> {
    let mut api = ApiDescription::new();
    zoo_api![api;
        Scalars, Options, Inner, Seqs, Maps, Nested, Deeper, Recursive, UnitEnum, RenamedUnit, DocUnit, External, Internal, Adjacent,
        Untagged, Strict, Renamed, WithDefaults, Ranges, Lengths, Patterns, Documented, Formats, Tuples, Newtype, Transparent,
        Flattened, UsesGeneric, DeprecatedStruct, HasDeprecated, WithExample, ReadWrite, ValueHolder, Bytes, MixedDoc,
        BigInts, EnumHolder, Bounds2, Wrappers, LowerUnit, TaggedNewtype, Defaults2, Lengths2, Ranges2, SetsAndTuples, AllOptional, StrictRenamed, UntaggedNamed, SchemaOnlyStrict, Titled, Chars, Nums, Overlap, NumOverlap, OverlapHolder,
        u8, i64, f64, bool, String, char, Vec<u32>, Vec<Inner>, Option<Inner>, Option<u16>, std::collections::BTreeMap<String, Inner>,
        Vec<Option<UnitEnum>>, Generic<Option<Inner>>, Box<Recursive>, [Inner; 2], uuid::Uuid, chrono::DateTime<chrono::Utc>,
        std::collections::BTreeSet<u8>, Option<Vec<External>>, std::collections::BTreeMap<String, Vec<Adjacent>>,
    ];
    api.register(ApiEndpoint::new("label_mayfail".to_string(), h_mayfail, http::Method::GET, "application/json", "/zoo/label", ApiEndpointVersions::All)).unwrap();
    api.register(ApiEndpoint::new("label_alt_mayfail".to_string(), alt::h_mayfail_alt, http::Method::GET, "application/json", "/zoo/zlabel", ApiEndpointVersions::All)).unwrap();
    api
}

// ---- the system under test: document + live server + handler-entry counter ------

pub struct Sut {
    pub name: String,
    pub doc: Value,
    pub addr: std::net::SocketAddr,
    pub entered: Box<dyn Fn() -> Option<u64>>,
    /// header to send with every request on a versioned server
    pub version_header: Option<(String, String)>,
    /// operations as (path template, method, operation object)
    pub ops: Vec<(String, String, Value)>,
}

pub fn ops_of(doc: &Value) -> Vec<(String, String, Value)> {
    let mut out = vec![];
    if let Some(paths) = doc["paths"].as_object() {
        for (p, item) in paths {
            if let Some(item) = item.as_object() {
                for (m, op) in item {
                    if ["get", "put", "post", "delete", "options", "head", "patch"].contains(&m.as_str()) {
                        out.push((p.clone(), m.to_uppercase(), op.clone()));
                    }
                }
            }
        }
    }
    out
}

fn resolve<'a>(doc: &'a Value, v: &'a Value) -> &'a Value {
    if let Some(r) = v.get("$ref").and_then(|r| r.as_str()) {
        if let Some(rest) = r.strip_prefix("#/") {
            let mut cur = doc;
            for part in rest.split('/') {
                cur = &cur[part];
            }
            return cur;
        }
    }
    v
}

/// formats this harness can generate values for (and validate)
fn known_string_format(f: &str) -> bool {
    matches!(f, "uuid" | "date-time" | "date" | "ip" | "ipv4" | "ipv6" | "email" | "uri" | "binary" | "byte" | "password" | "partial-date-time")
}

/// does the schema (transitively) use a string format we cannot produce?
fn unknown_format_in(doc: &Value, schema: &Value, depth: usize, out: &mut Vec<String>) {
    if depth > 8 {
        return;
    }
    let s = resolve(doc, schema);
    if let Some(o) = s.as_object() {
        if o.get("type") == Some(&json!("string")) {
            if let Some(f) = o.get("format").and_then(|f| f.as_str()) {
                if !known_string_format(f) {
                    out.push(f.to_string());
                }
            }
        }
        for (k, v) in o {
            match k.as_str() {
                "properties" => {
                    if let Some(p) = v.as_object() {
                        for x in p.values() {
                            unknown_format_in(doc, x, depth + 1, out);
                        }
                    }
                }
                "items" | "additionalProperties" | "not" => unknown_format_in(doc, v, depth + 1, out),
                "allOf" | "anyOf" | "oneOf" => {
                    if let Some(a) = v.as_array() {
                        for x in a {
                            unknown_format_in(doc, x, depth + 1, out);
                        }
                    }
                }
                _ => {}
            }
        }
    }
}

/// post-process generated instances so that strings respect the formats
/// the document states (the generic generator only knows uuid/date-time)
fn fix_formats(doc: &Value, schema: &Value, inst: &mut Value, st: &mut Style, depth: usize) {
    if depth > 8 {
        return;
    }
    let s = resolve(doc, schema);
    let Some(o) = s.as_object() else { return };
    if let (Some(f), Value::String(text)) = (o.get("format").and_then(|f| f.as_str()), &mut *inst) {
        let pick = |st: &mut Style, xs: &[&str]| xs[st.below(xs.len() as u64) as usize].to_string();
        match f {
            "ip" => *text = pick(st, &["127.0.0.1", "::1", "10.1.2.3", "fe80::1"]),
            "ipv4" => *text = pick(st, &["127.0.0.1", "255.255.255.255", "0.0.0.0"]),
            "ipv6" => *text = pick(st, &["::1", "fe80::1", "2001:db8::8a2e:370:7334"]),
            "date" => *text = pick(st, &["2020-01-02", "1999-12-31", "2024-02-29"]),
            "date-time" => *text = pick(st, &["2021-03-04T05:06:07Z", "1999-12-31T23:59:59.123Z", "2024-02-29T00:00:00+02:00"]),
            "uuid" => *text = pick(st, &["123e4567-e89b-12d3-a456-426614174000", "00000000-0000-0000-0000-000000000000"]),
            "email" => *text = pick(st, &["a@b.c", "someone@example.org"]),
            "uri" => *text = pick(st, &["http://a.b/c", "https://example.org/"]),
            _ => {}
        }
    }
    match inst {
        Value::Object(m) => {
            for (k, v) in m.iter_mut() {
                if let Some(ps) = o.get("properties").and_then(|p| p.get(k)) {
                    fix_formats(doc, ps, v, st, depth + 1);
                } else if let Some(ap @ Value::Object(_)) = o.get("additionalProperties") {
                    fix_formats(doc, ap, v, st, depth + 1);
                }
            }
        }
        Value::Array(a) => {
            if let Some(items) = o.get("items") {
                for v in a.iter_mut() {
                    fix_formats(doc, items, v, st, depth + 1);
                }
            }
        }
        _ => {}
    }
    for k in ["allOf", "anyOf", "oneOf"] {
        if let Some(Value::Array(subs)) = o.get(k) {
            for sub in subs {
                fix_formats(doc, sub, inst, st, depth + 1);
            }
        }
    }
}

/// a document-valid instance of `schema`, or None if the generator cannot find one
pub fn valid_instance(doc: &Value, schema: &Value, st: &mut Style) -> Option<Value> {
    for _ in 0..40 {
        let mut g = Gen { root: doc, st: Style(st.next()), conservative: true };
        let mut inst = g.instance(schema, true, 0);
        fix_formats(doc, schema, &mut inst, st, 0);
        let v = Validator::new(doc, Dialect::Oas30);
        if v.valid(schema, &inst) && v.unsupported.borrow().is_empty() {
            return Some(inst);
        }
    }
    None
}

fn scalar_text(v: &Value) -> Option<String> {
    match v {
        Value::String(s) => Some(s.clone()),
        Value::Number(n) => Some(n.to_string()),
        Value::Bool(b) => Some(b.to_string()),
        _ => None,
    }
}

pub struct BuiltRequest {
    pub bytes: Vec<u8>,
    pub target: String,
    pub required_query: Vec<String>,
    pub query_pairs: Vec<(String, String)>,
    pub path: String,
    pub head_extra: Vec<(String, String)>,
    pub body: Option<Vec<u8>>,
    pub method: String,
}

fn assemble(method: &str, path: &str, pairs: &[(String, String)], extra: &[(String, String)], body: Option<&[u8]>, st: &mut Style) -> (Vec<u8>, String) {
    let mut target = path.to_string();
    if !pairs.is_empty() {
        target.push('?');
        target.push_str(&pairs.iter().map(|(k, v)| format!("{}={}", enc_component(k, st, false), enc_component(v, st, false))).collect::<Vec<_>>().join("&"));
    }
    (http1::build_request(method, &target, extra, body), target)
}

/// Build a request for an operation purely from the document.
pub fn build_from_doc(doc: &Value, path_t: &str, method: &str, op: &Value, st: &mut Style, stats: &mut Stats) -> Option<BuiltRequest> {
    if op.get("x-dropshot-websocket").is_some() {
        stats.count("skip:websocket");
        return None;
    }
    // literal parts of the documented path are data: percent-encode them
    let mut path = path_t
        .split('/')
        .map(|seg| if seg.starts_with('{') && seg.ends_with('}') { seg.to_string() } else { crate::model::pct_encode_segment(seg.as_bytes(), 0, true) })
        .collect::<Vec<_>>()
        .join("/");
    let mut pairs: Vec<(String, String)> = vec![];
    let mut required_query = vec![];
    let pag_required: Vec<String> = op
        .get("x-dropshot-pagination")
        .and_then(|p| p.get("required"))
        .and_then(|r| r.as_array())
        .map(|a| a.iter().filter_map(|x| x.as_str().map(|s| s.to_string())).collect())
        .unwrap_or_default();
    for p in op.get("parameters").and_then(|p| p.as_array()).cloned().unwrap_or_default() {
        let p = resolve(doc, &p).clone();
        let name = p["name"].as_str()?.to_string();
        let schema = &p["schema"];
        let mut bad = vec![];
        unknown_format_in(doc, schema, 0, &mut bad);
        if !bad.is_empty() {
            stats.count("skip:unknown-format");
            return None;
        }
        let required = p["required"] == json!(true);
        match p["in"].as_str()? {
            "path" => {
                let mut text = None;
                for _ in 0..20 {
                    if let Some(v) = valid_instance(doc, schema, st).as_ref().and_then(scalar_text) {
                        if !v.is_empty() && v != "." && v != ".." {
                            text = Some(v);
                            break;
                        }
                    }
                }
                let Some(text) = text else {
                    stats.count("skip:no-path-instance");
                    return None;
                };
                path = path.replace(&format!("{{{}}}", name), &enc_path_segment(&text, st));
            }
            "query" => {
                let include = required || pag_required.contains(&name) || (name != "page_token" && st.below(3) == 0);
                if required || pag_required.contains(&name) {
                    if required {
                        required_query.push(name.clone());
                    }
                }
                if include {
                    match valid_instance(doc, schema, st).as_ref().and_then(scalar_text) {
                        Some(v) => pairs.push((name, v)),
                        None => {
                            if required {
                                stats.count("skip:no-query-instance");
                                return None;
                            }
                        }
                    }
                }
            }
            _ => {}
        }
    }
    let mut extra = vec![];
    let mut body: Option<Vec<u8>> = None;
    if let Some(rb) = op.get("requestBody") {
        let rb = resolve(doc, rb);
        let content = rb["content"].as_object()?;
        let (ct, media) = content.iter().next()?;
        let schema = &media["schema"];
        let mut bad = vec![];
        unknown_format_in(doc, schema, 0, &mut bad);
        if !bad.is_empty() {
            stats.count("skip:unknown-format");
            return None;
        }
        extra.push(("content-type".to_string(), ct.clone()));
        match ct.as_str() {
            "application/json" => {
                let Some(inst) = valid_instance(doc, schema, st) else {
                    stats.count("skip:no-body-instance");
                    return None;
                };
                body = Some(serde_json::to_vec(&inst).unwrap());
            }
            "application/x-www-form-urlencoded" => {
                let inst = valid_instance(doc, schema, st)?;
                let o = inst.as_object()?;
                let mut ps = vec![];
                for (k, v) in o {
                    if v.is_null() {
                        continue;
                    }
                    ps.push(format!("{}={}", enc_component(k, st, true), enc_component(&scalar_text(v)?, st, true)));
                }
                body = Some(ps.join("&").into_bytes());
            }
            "application/octet-stream" => {
                body = Some((0..st.below(200)).map(|i| (i * 7) as u8).collect());
            }
            "multipart/form-data" => {
                extra.pop();
                extra.push(("content-type".to_string(), "multipart/form-data; boundary=VERIFBOUND".to_string()));
                body = Some(b"--VERIFBOUND\r\ncontent-disposition: form-data; name=\"f\"\r\n\r\nvalue\r\n--VERIFBOUND--\r\n".to_vec());
            }
            _ => {
                stats.count("skip:unknown-content-type");
                return None;
            }
        }
    }
    let (bytes, target) = assemble(method, &path, &pairs, &extra, body.as_deref(), st);
    Some(BuiltRequest { bytes, target, required_query, query_pairs: pairs, path, head_extra: extra, body, method: method.to_string() })
}

/// validate a response against what the document says for this operation
pub fn judge_response(doc: &Value, op: &Value, resp: &http1::RawResp, what: &str) -> Result<(), Failure> {
    judge_response_m(doc, op, resp, what, false)
}

/// `head`: the request was HEAD, so the response carries no body whatever the document says
pub fn judge_response_m(doc: &Value, op: &Value, resp: &http1::RawResp, what: &str, head: bool) -> Result<(), Failure> {
    let responses = op["responses"].as_object().ok_or_else(|| Failure::new("doc-shape", "operation without responses"))?;
    let code = resp.status.to_string();
    let range = format!("{}XX", resp.status / 100);
    let documented = responses.get(&code).or_else(|| responses.get(&range)).or_else(|| responses.get("default"));
    let Some(d) = documented else {
        fail!(format!("undocumented-status:{}", resp.status / 100), "{}: status {} is not among the documented responses {:?}", what, resp.status, responses.keys().collect::<Vec<_>>());
    };
    let d = resolve(doc, d);
    let content = d.get("content").and_then(|c| c.as_object());
    let ct = resp.header("content-type").map(|c| c.split(';').next().unwrap().trim().to_ascii_lowercase());
    match content {
        _ if head => {}
        None => {
            ensure!(resp.body.is_empty(), "undocumented-body", "{}: response {} is documented without content but has a body of {} bytes", what, resp.status, resp.body.len());
        }
        Some(c) if c.is_empty() => {
            ensure!(resp.body.is_empty(), "undocumented-body", "{}: response {} is documented without content but has a body of {} bytes", what, resp.status, resp.body.len());
        }
        Some(c) => {
            let media = match &ct {
                Some(ct) => c.get(ct).or_else(|| c.get("*/*")),
                None => c.get("*/*"),
            };
            let Some(media) = media else {
                fail!("undocumented-content-type", "{}: content type {:?} is not among the documented {:?}", what, ct, c.keys().collect::<Vec<_>>());
            };
            if let Some(schema) = media.get("schema") {
                if ct.as_deref() == Some("application/json") {
                    let body: Value = serde_json::from_slice(&resp.body).map_err(|e| Failure::new("response-not-json", format!("{}: {}", what, e)))?;
                    let v = Validator::new(doc, Dialect::Oas30);
                    let ok = v.valid(schema, &body);
                    ensure!(v.unsupported.borrow().is_empty(), "published-schema-not-oas30", "{}: {:?}", what, v.unsupported.borrow());
                    ensure!(
                        ok,
                        format!("response-body-invalid:{}", resp.status / 100),
                        "{}: the {} response body {} is not valid against the documented schema {}",
                        what,
                        resp.status,
                        truncate(&body.to_string(), 400),
                        truncate(&resolve(doc, schema).to_string(), 600)
                    );
                }
            }
        }
    }
    if let Some(hs) = d.get("headers").and_then(|h| h.as_object()) {
        for (name, h) in hs {
            if resolve(doc, h)["required"] == json!(true) {
                ensure!(resp.header(&name.to_ascii_lowercase()).is_some(), "documented-header-missing", "{}: documented required response header {} is missing", what, name);
            }
        }
    }
    Ok(())
}

#[derive(Clone, Debug, Serialize, Deserialize)]
pub struct DocCase {
    pub sut: u8,
    pub op: u16,
    pub seed: u64,
}

pub fn check_doc_case(suts: &[Sut], rt: &tokio::runtime::Runtime, c: &DocCase, st: &mut Stats) -> Result<(), Failure> {
    let sut = &suts[c.sut as usize % suts.len()];
    if sut.ops.is_empty() {
        return Ok(());
    }
    let (path_t, method, op) = &sut.ops[pick_idx(c.op, sut.ops.len())];
    let mut style = Style(c.seed);
    let Some(mut req) = build_from_doc(&sut.doc, path_t, method, op, &mut style, st) else {
        return Ok(());
    };
    if let Some(h) = &sut.version_header {
        req.head_extra.push(h.clone());
        let (b, t) = assemble(&req.method, &req.path, &req.query_pairs, &req.head_extra, req.body.as_deref(), &mut style);
        req.bytes = b;
        req.target = t;
    }
    let opid = op["operationId"].as_str().unwrap_or("?").to_string();
    let what = format!("[{}] {} {} ({})", sut.name, method, truncate(&req.target, 300), opid);
    st.count(&format!("sut:{}", sut.name));
    let success_codes: Vec<u16> = op["responses"].as_object().map(|r| r.keys().filter_map(|k| k.parse::<u16>().ok()).filter(|c| *c < 400).collect()).unwrap_or_default();
    let has_default = op["responses"].get("default").is_some();
    let send = |bytes: &[u8]| -> Result<http1::RawResp, Failure> {
        rt.block_on(http1::oneshot(sut.addr, bytes, method == "HEAD", Duration::from_secs(15))).map_err(|e| Failure::new("no-response", format!("{}: {}", what, e)))
    };
    // 1. the document-derived request is accepted
    let before = (sut.entered)();
    let resp = send(&req.bytes)?;
    st.eval();
    let handler_may_refuse = ["vr_found", "vr_seeother", "vr_tempredirect"].contains(&opid.as_str());
    if (opid.ends_with("_mayfail") || handler_may_refuse) && resp.status >= 500 {
        // the handler's value could not be sent (e.g. not a legal header value): the framework's
        // error must still be what the document says for this operation
        st.count("framework_error_on_response_conversion");
        return judge_response_m(&sut.doc, op, &resp, &what, false);
    }
    if opid.ends_with("_value") && resp.status == 503 {
        // the value endpoint found no value of the type: nothing to judge
        st.count("skip:no-value");
        return Ok(());
    }
    if (400..500).contains(&resp.status) && req.body.is_some() && resp.json().and_then(|j| j["message"].as_str().or(j["problem"].as_str()).map(|m| m.starts_with("request body exceeded maximum size"))).unwrap_or(false) {
        // The document does not publish body size limits; generated endpoints may declare limits smaller than
        // a schema-valid body.  Size limits are C11's (and C19's) business: not judged here.
        st.count("skip:body-over-endpoint-limit");
        return Ok(());
    }
    let nparams = op.get("parameters").and_then(|p| p.as_array()).map(|a| a.len()).unwrap_or(0);
    let structured_body = req.body.as_ref().map(|b| b.len() > 8).unwrap_or(false);
    if nparams >= 2 || structured_body {
        st.nontrivial(hash_of(&(sut.name.clone(), req.bytes.clone())));
    }
    if !has_default {
        ensure!(
            success_codes.contains(&resp.status),
            format!("doc-valid-request-refused:{}", resp.status / 100),
            "{}: built from the document alone, expected {:?}, got {} {} -- body sent: {}",
            what,
            success_codes,
            resp.status,
            truncate(&resp.body_text(), 300),
            truncate(&String::from_utf8_lossy(req.body.as_deref().unwrap_or(b"")), 500)
        );
        if let (Some(b), Some(a)) = (before, (sut.entered)()) {
            ensure!(a == b + 1, "handler-entry-count", "{}: handler entries moved by {}", what, a - b);
        }
    } else {
        ensure!(resp.status < 400, format!("doc-valid-request-refused:{}", resp.status / 100), "{}: got {} {}", what, resp.status, truncate(&resp.body_text(), 300));
    }
    judge_response_m(&sut.doc, op, &resp, &what, method == "HEAD")?;
    st.sample(|| json!({"request": truncate(&String::from_utf8_lossy(&req.bytes), 400), "status": resp.status, "response": truncate(&resp.body_text(), 200)}));
    // 2. omit each required query parameter in turn
    for name in &req.required_query {
        let pairs: Vec<(String, String)> = req.query_pairs.iter().filter(|(k, _)| k != name).cloned().collect();
        let (bytes, target) = assemble(&req.method, &req.path, &pairs, &req.head_extra, req.body.as_deref(), &mut style);
        let before = (sut.entered)();
        let r = send(&bytes)?;
        st.eval();
        st.count("omitted_required_param");
        ensure!(
            (400..500).contains(&r.status),
            "missing-required-param-accepted",
            "[{}] {} {}: the document marks query parameter {} as required, omitting it must give a 4xx, got {}",
            sut.name,
            method,
            truncate(&target, 300),
            name,
            r.status
        );
        if let (Some(b), Some(a)) = (before, (sut.entered)()) {
            ensure!(a == b, "missing-required-param-handler-ran", "{}: handler ran without required parameter {}", what, name);
        }
        // framework errors are valid against the documented error schema
        judge_response_m(&sut.doc, op, &r, &format!("{} without {}", what, name), method == "HEAD")?;
    }
    Ok(())
}

pub fn make_sut<C: dropshot::ServerContext>(
    rt: &tokio::runtime::Runtime,
    name: &str,
    api: ApiDescription<C>,
    ctx: C,
    entered: impl Fn(&C) -> Option<u64> + 'static,
    keep: &mut Vec<Box<dyn std::any::Any>>,
) -> Sut {
    make_sut_versioned(rt, name, api, ctx, entered, keep, None)
}

/// `version`: document and serve the API at this version (header-based policy)
pub fn make_sut_versioned<C: dropshot::ServerContext>(
    rt: &tokio::runtime::Runtime,
    name: &str,
    api: ApiDescription<C>,
    ctx: C,
    entered: impl Fn(&C) -> Option<u64> + 'static,
    keep: &mut Vec<Box<dyn std::any::Any>>,
    version: Option<&str>,
) -> Sut {
    let v = semver::Version::parse(version.unwrap_or("1.0.0")).unwrap();
    let doc = api.openapi(name, v.clone()).json().expect("openapi");
    let _g = rt.enter();
    let cfg = dropshot::ConfigDropshot { default_request_body_max_bytes: 1 << 20, ..Default::default() };
    let policy = version.map(|_| {
        dropshot::VersionPolicy::Dynamic(Box::new(dropshot::ClientSpecifiesVersionInHeader::new(http::HeaderName::from_static("x-verif-version"), semver::Version::new(99, 0, 0))))
    });
    let version_header = version.map(|s| ("x-verif-version".to_string(), s.to_string()));
    let server = Arc::new(start_server(api, ctx, cfg, policy).expect("server"));
    let addr = server.local_addr();
    let s2 = server.clone();
    keep.push(Box::new(server));
    let mut ops = ops_of(&doc);
    // the header-echo endpoint of the responses API refuses header names that are not tokens by design
    ops.retain(|(p, _, _)| !p.contains("withheaders"));
    Sut { name: name.to_string(), ops, doc, addr, entered: Box::new(move || entered(s2.app_private())), version_header }
}

pub fn run(ctx: &mut Ctx) {
    run_with(ctx, |_, _, _| {});
}

/// `extra` may add further systems under test (generated API programs)
pub fn run_with(ctx: &mut Ctx, extra: impl FnOnce(&tokio::runtime::Runtime, &mut Vec<Sut>, &mut Vec<Box<dyn std::any::Any>>)) {
    ctx.rule = "for each operation of several compiled APIs (echo round trip of ~60 zoo types as JSON bodies; typed path/query/body/form/multipart/raw echo endpoints; every response kind; paginated endpoints) a request is built from the OpenAPI document alone - documented path, all required parameters plus a random subset of optional ones, a body that an OpenAPI-3.0 validator accepts for the documented request schema under the documented content type - and sent to a live server. Oracle: accepted with a documented success status, handler entered once; response status, content type and body (validated by the OpenAPI-3.0 validator) are among those documented, required documented headers present; omitting each required query parameter gives a 4xx without handler entry, and that framework error validates against the documented error response. non-trivial = operation with >= 2 parameters or a structured body; distinct by request bytes. (The progen phase adds generated API programs, see C19's generator.)".into();
    ctx.assume("body size limits are not part of the document: a schema-valid body refused with 'request body exceeded maximum size' is not judged (counted as skip:body-over-endpoint-limit; limits are C11's and C19's business)");
    ctx.assume("operations whose schemas use a string format the harness cannot generate are skipped and counted; path parameter values exclude '', '.', '..'; paginated operations honour x-dropshot-pagination.required");
    ctx.max_shrink_iters = 300;
    let srt = tokio::runtime::Builder::new_multi_thread().worker_threads(3).enable_all().build().unwrap();
    let rt = tokio::runtime::Builder::new_current_thread().enable_all().build().unwrap();
    let mut keep: Vec<Box<dyn std::any::Any>> = vec![];
    let mut suts = vec![
        make_sut(&srt, "zoo", zoo_echo_api(), ZooCtx::default(), |c| Some(c.entered.load(Ordering::SeqCst)), &mut keep),
        make_sut(&srt, "echo", crate::echoapi::echo_api(), crate::echoapi::EchoCtx::default(), |c| Some(c.total()), &mut keep),
        make_sut(&srt, "responses", crate::c12::resp_api_pub(), (), |_| None, &mut keep),
        make_sut(&srt, "pagination", crate::pagapi::pag_api(), crate::pagapi::PagCtx::default(), |c| Some(c.entered.load(Ordering::SeqCst)), &mut keep),
    ];
    extra(&srt, &mut suts, &mut keep);
    let n = ctx.tier.pick(12000, 150000);
    let nsuts = suts.len() as u8;
    let strat = (0u8..nsuts.max(1), any::<u16>(), any::<u64>()).prop_map(|(sut, op, seed)| DocCase { sut, op, seed });
    ctx.phase("doc_driven", n, strat, |c, st| check_doc_case(&suts, &rt, c, st));
    ctx.require_frac("doc_driven", "omitted_required_param", "sut:echo", 0.1);
    drop(suts);
    drop(keep);
}
