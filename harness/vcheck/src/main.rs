use vlib::core::*;

fn usage() -> ! {
    eprintln!("usage: vcheck <property-id> <quick|thorough> [--replay <file>]");
    std::process::exit(2);
}

fn main() {
    let args: Vec<String> = std::env::args().collect();
    if args.len() < 3 {
        usage();
    }
    if args[1] == "progen" {
        // vcheck progen <seed> <n> <outdir>: writes generated.rs and generated_manifest.json (only if changed)
        let seed: u64 = args[2].parse().expect("seed");
        let n: usize = args[3].parse().expect("n");
        let dir = std::path::PathBuf::from(&args[4]);
        let decls = vlib::progen::generate(seed, n);
        let src = vlib::progen::render_program(&decls);
        let man = serde_json::to_string_pretty(&serde_json::json!({"seed": seed, "n": n, "decls": decls})).unwrap();
        for (name, text) in [("generated.rs", src), ("generated_manifest.json", man)] {
            let p = dir.join(name);
            if std::fs::read_to_string(&p).ok().as_deref() != Some(text.as_str()) {
                std::fs::write(&p, text).expect("write generated file");
            }
        }
        println!("progen: {} declarations (seed {})", n, seed);
        return;
    }
    if args[1] == "zoo-status" {
        for e in vlib::c08::zoo_entries() {
            match &e.doc {
                Ok(_) => println!("ok   {}", e.name),
                Err(p) => println!("ERR  {} :: {}", e.name, p.lines().next().unwrap_or("")),
            }
        }
        return;
    }
    if args[1] == "serve-pag" {
        let rt = tokio::runtime::Builder::new_multi_thread().enable_all().build().unwrap();
        let _g = rt.enter();
        let server = vlib::dynapi::start_server(vlib::pagapi::pag_api(), vlib::pagapi::PagCtx::default(), Default::default(), None).unwrap();
        println!("{}", server.local_addr());
        std::thread::sleep(std::time::Duration::from_secs(args[2].parse().unwrap_or(60)));
        return;
    }
    if args[1] == "serve" {
        // manual experiments: start the echo server and print its address
        let rt = tokio::runtime::Builder::new_multi_thread().enable_all().build().unwrap();
        let live = vlib::c09::start_echo(&rt, 1 << 20, dropshot::HandlerTaskMode::Detached);
        println!("{}", live.addr);
        std::thread::sleep(std::time::Duration::from_secs(args[2].parse().unwrap_or(60)));
        return;
    }
    let id = args[1].to_uppercase();
    let tier = match args[2].as_str() {
        "quick" => Tier::Quick,
        "thorough" => Tier::Thorough,
        _ => usage(),
    };
    let mut replay = None;
    if args.len() >= 5 && args[3] == "--replay" {
        let text = std::fs::read_to_string(&args[4]).unwrap_or_else(|e| {
            eprintln!("cannot read replay file: {}", e);
            std::process::exit(2);
        });
        let r: ReplayFile = serde_json::from_str(&text).unwrap_or_else(|e| {
            eprintln!("replay file malformed: {}", e);
            std::process::exit(2);
        });
        if r.property != id {
            eprintln!("replay file is for property {}", r.property);
            std::process::exit(2);
        }
        replay = Some(r);
    }
    let seed: u64 = std::env::var("VERIF_SEED").ok().and_then(|s| s.parse().ok()).unwrap_or(1);
    install_panic_hook();
    let wd: u64 = std::env::var("VERIF_WATCHDOG_S")
        .ok()
        .and_then(|s| s.parse().ok())
        .unwrap_or(match tier {
            Tier::Quick => 900,
            Tier::Thorough => 6 * 3600,
        });
    watchdog(wd, id.clone());
    let mut ctx = Ctx::new(&id, tier, seed, replay);
    // A panic that escapes a phase (for instance close() on a server whose accept loop has died)
    // must not turn into exit code 101: what the phases recorded so far is still reported, and if
    // nothing was recorded the run is inconclusive (exit 2), never a silent pass.
    let outcome = std::panic::catch_unwind(std::panic::AssertUnwindSafe(|| match id.as_str() {
        "C01" => vlib::routing::run(&mut ctx, vlib::routing::Mode::C01),
        "C02" => vlib::c02::run(&mut ctx),
        "C03" => vlib::c03::run(&mut ctx),
        "C04" => vlib::routing::run(&mut ctx, vlib::routing::Mode::C04),
        "C05" => vlib::c05::run(&mut ctx),
        "C06" => vlib::c06::run(&mut ctx),
        "C07" => vlib::c07::run(&mut ctx),
        "C08" => vlib::c08::run(&mut ctx),
        "C09" => vlib::c09::run(&mut ctx),
        "C10" => vlib::c10::run(&mut ctx),
        "C11" => vlib::c11::run(&mut ctx),
        "C12" => vlib::c12::run(&mut ctx),
        "C14" => vlib::c14::run(&mut ctx),
        "C15" => vlib::c15::run(&mut ctx),
        "C20" => vlib::c20::run(&mut ctx),
        "C16" => vlib::c16::run(&mut ctx),
        "C17" => vlib::c17::run(&mut ctx),
        "C18" => vlib::c18::run(&mut ctx),
        "C13" => vlib::c13::run(&mut ctx),
        _ => {
            eprintln!("unknown property {}", id);
            std::process::exit(2);
        }
    }));
    if let Err(e) = outcome {
        let msg = e.downcast_ref::<&str>().map(|s| s.to_string()).or_else(|| e.downcast_ref::<String>().cloned()).unwrap_or_else(|| "<non-string panic>".into());
        ctx.harness_error(format!("a panic escaped the phases: {}", msg));
    }
    let code = ctx.finish();
    std::process::exit(code);
}
