//! R8: program generator.  A seed yields a list of endpoint/channel
//! declarations (the *record* of what each declaration says), rendered as
//! Rust source in three styles: free functions, an API trait with an
//! implementation, and (implicitly) the trait's stub description.

use crate::core::splitmix64;
use proptest::prelude::*;
use proptest::strategy::ValueTree;
use proptest::test_runner::{Config, RngAlgorithm, RngSeed, TestRunner};
use serde::{Deserialize, Serialize};

#[derive(Clone, Debug, Serialize, Deserialize, PartialEq)]
pub enum PSeg {
    Lit(String),
    Var(String, String), // name, rust type
    Wild(String),
}

#[derive(Clone, Debug, Serialize, Deserialize, PartialEq)]
pub enum VSpec {
    Lit(String),
    Const(String), // path of a const, e.g. consts::V2_0_0
}

#[derive(Clone, Debug, Serialize, Deserialize, PartialEq)]
pub enum Versions {
    Unspecified,
    All,
    From(VSpec),
    Until(VSpec),
    FromUntil(VSpec, VSpec),
}

#[derive(Clone, Debug, Serialize, Deserialize, PartialEq)]
pub enum BodyKind {
    None,
    Json(u8),
    Form(u8),
    Untyped,
    Streaming,
    Multipart,
}

#[derive(Clone, Debug, Serialize, Deserialize, PartialEq)]
pub enum RetKind {
    Ok(u8),
    Created(u8),
    Accepted(u8),
    Deleted,
    Updated,
    Found,
    SeeOther,
    TempRedirect,
    WithHeaders(u8),
    Freeform,
}

#[derive(Clone, Debug, Serialize, Deserialize, PartialEq)]
pub enum DocStyle {
    None,
    TripleSlash,
    DocAttr,
    Block,
}

#[derive(Clone, Debug, Serialize, Deserialize, PartialEq)]
pub struct Decl {
    pub id: u32,
    pub channel: bool,
    pub method: String,
    pub segs: Vec<PSeg>,
    pub trailing_slash: bool,
    pub tags: Vec<String>,
    pub versions: Versions,
    pub operation_id: Option<String>,
    pub max_bytes: Option<(u32, bool)>, // value, via const
    pub deprecated: bool,
    pub unpublished: bool,
    pub query: Option<u8>,
    pub query_first: bool,
    pub body: BodyKind,
    pub ret: RetKind,
    pub custom_error: bool,
    /// doc lines: each paragraph is a list of lines, each line a list of words
    pub doc: Vec<Vec<Vec<String>>>,
    pub doc_style: DocStyle,
    pub doc_leading_blank: bool,
}

const N_QUERY: u8 = 3;
const N_JSON: u8 = 4;
const N_FORM: u8 = 2;
const N_RESP: u8 = 4;
const VERSIONS: [&str; 3] = ["1.0.0", "2.0.0", "3.1.4"];

fn word() -> impl Strategy<Value = String> {
    prop_oneof![
        6 => "[a-zA-Z]{1,8}",
        1 => "[a-z]{1,5}-",
        1 => Just("*star*".to_string()),
        1 => Just("`code`".to_string()),
        1 => Just("ünï".to_string()),
        1 => Just("a.b,c;d".to_string()),
        1 => Just("\"quoted\"".to_string()),
        1 => Just("back\\slash".to_string()),
        1 => Just("**".to_string()),
        1 => Just("#[x]".to_string()),
    ]
}

fn vspec() -> impl Strategy<Value = (usize, bool)> {
    (0usize..3, any::<bool>())
}

fn decl_strategy(id: u32) -> impl Strategy<Value = Decl> {
    let segs = (
        proptest::collection::vec(prop_oneof![Just(0u8), Just(1u8), Just(0u8)], 0..3),
        prop::bool::weighted(0.12),
        proptest::collection::vec(0u8..4, 3),
    );
    let versions = prop_oneof![
        3 => Just((0u8, (0usize, false), (0usize, false))),
        1 => Just((1u8, (0usize, false), (0usize, false))),
        2 => vspec().prop_map(|a| (2u8, a, (0, false))),
        2 => vspec().prop_map(|a| (3u8, a, (0, false))),
        3 => (vspec(), vspec()).prop_map(|(a, b)| (4u8, a, b)),
    ];
    let doc = proptest::collection::vec(proptest::collection::vec(proptest::collection::vec(word(), 1..5), 1..3), 0..3);
    (
        (prop::bool::weighted(0.1), 0usize..7, segs, any::<bool>()),
        (proptest::collection::vec(0u8..2, 0..3), versions, prop::bool::weighted(0.3), proptest::option::weighted(0.35, (prop_oneof![1 => Just(0u32), 3 => 1u32..200, 3 => 200u32..1024, 3 => 1024u32..100000], any::<bool>()))),
        (prop::bool::weighted(0.2), prop::bool::weighted(0.2), proptest::option::weighted(0.5, 0u8..N_QUERY), any::<bool>()),
        (0u8..8, 0u8..12, 0u8..4, prop::bool::weighted(0.2)),
        (doc, 0u8..4, any::<bool>()),
    )
        .prop_map(move |((channel, m, (kinds, wild, tys), trailing_slash), (tags, vers, custom_op, max_bytes), (deprecated, unpublished, query, query_first), (b, r, k, custom_error), (doc, ds, doc_leading_blank))| {
            let method = if channel { "GET".to_string() } else { ["GET", "PUT", "POST", "DELETE", "PATCH", "OPTIONS", "HEAD"][m].to_string() };
            let mut segs = vec![PSeg::Lit(format!("d{}", id))];
            let mut nvar = 0;
            for (i, kd) in kinds.iter().enumerate() {
                if *kd == 0 {
                    segs.push(PSeg::Lit(["items", "x y", "ü", "sub"][(tys[i % 3] as usize) % 4].to_string()));
                } else {
                    let ty = ["String", "u32", "i64", "bool"][(tys[i % 3] as usize) % 4];
                    segs.push(PSeg::Var(format!("v{}", nvar), ty.to_string()));
                    nvar += 1;
                }
            }
            let wild = wild && !channel; // channels may not have wildcard paths
            if wild {
                segs.push(PSeg::Wild("rest".to_string()));
            }
            let mk = |(i, c): (usize, bool)| if c { VSpec::Const(format!("{}V{}", if i == 2 { "consts::" } else { "" }, VERSIONS[i].replace('.', "_"))) } else { VSpec::Lit(VERSIONS[i].to_string()) };
            let versions = match vers.0 {
                0 => Versions::Unspecified,
                1 => Versions::All,
                2 => Versions::From(mk(vers.1)),
                3 => Versions::Until(mk(vers.1)),
                _ => {
                    let (a, b) = if vers.1 .0 <= vers.2 .0 { (vers.1, vers.2) } else { (vers.2, vers.1) };
                    Versions::FromUntil(mk(a), mk(b))
                }
            };
            let has_body_method = matches!(method.as_str(), "PUT" | "POST" | "PATCH" | "DELETE");
            let body = if channel || !has_body_method {
                BodyKind::None
            } else {
                match b {
                    0 | 1 => BodyKind::None,
                    2 | 3 => BodyKind::Json(k % N_JSON),
                    4 => BodyKind::Form(k % N_FORM),
                    5 => BodyKind::Untyped,
                    6 => BodyKind::Streaming,
                    _ => BodyKind::Multipart,
                }
            };
            let ret = match r {
                0 | 1 | 2 => RetKind::Ok(k % N_RESP),
                3 => RetKind::Created(k % N_RESP),
                4 => RetKind::Accepted(k % N_RESP),
                5 => RetKind::Deleted,
                6 => RetKind::Updated,
                7 => RetKind::Found,
                8 => RetKind::SeeOther,
                9 => RetKind::TempRedirect,
                10 => RetKind::WithHeaders(k % N_RESP),
                _ => RetKind::Freeform,
            };
            let mut tags: Vec<String> = tags.iter().map(|t| ["alpha", "beta"][*t as usize].to_string()).collect();
            tags.dedup();
            // a third of the tagged declarations also carry a tag nobody else has, so that the set of
            // tags in use differs from version to version
            if !tags.is_empty() && (id + tags.len() as u32) % 3 == 0 {
                tags.push(format!("only-{}", id));
            }
            let doc_style = if doc.is_empty() { DocStyle::None } else { [DocStyle::TripleSlash, DocStyle::DocAttr, DocStyle::Block, DocStyle::TripleSlash][ds as usize].clone() };
            Decl {
                id,
                channel,
                method,
                segs,
                trailing_slash: trailing_slash && !wild,
                tags,
                versions,
                operation_id: if custom_op { Some(format!("custom_op_{}", id)) } else { None },
                max_bytes: if channel { None } else { max_bytes },
                deprecated,
                unpublished: unpublished || wild,
                query,
                query_first,
                body,
                ret,
                custom_error: custom_error && !channel,
                doc,
                doc_style,
                doc_leading_blank,
            }
        })
}

pub fn generate(seed: u64, n: usize) -> Vec<Decl> {
    let mut out = vec![];
    for id in 0..n as u32 {
        let config = Config { failure_persistence: None, rng_algorithm: RngAlgorithm::ChaCha, rng_seed: RngSeed::Fixed(splitmix64(seed ^ ((id as u64) << 20))), ..Config::default() };
        let mut runner = TestRunner::new(config);
        let tree = decl_strategy(id).new_tree(&mut runner).expect("strategy");
        out.push(tree.current());
    }
    out
}

impl Decl {
    pub fn fn_name(&self) -> String {
        format!("gen_ep_{}", self.id)
    }
    pub fn op_id(&self) -> String {
        self.operation_id.clone().unwrap_or_else(|| self.fn_name())
    }
    pub fn path_template(&self) -> String {
        let mut s = String::new();
        for seg in &self.segs {
            s.push('/');
            match seg {
                PSeg::Lit(l) => s.push_str(l),
                PSeg::Var(n, _) => s.push_str(&format!("{{{}}}", n)),
                PSeg::Wild(n) => s.push_str(&format!("{{{}:.*}}", n)),
            }
        }
        if self.trailing_slash {
            s.push('/');
        }
        s
    }
    pub fn doc_path(&self) -> String {
        let mut s = String::new();
        for seg in &self.segs {
            s.push('/');
            match seg {
                PSeg::Lit(l) => s.push_str(l),
                PSeg::Var(n, _) | PSeg::Wild(n) => s.push_str(&format!("{{{}}}", n)),
            }
        }
        s
    }
    pub fn has_path_params(&self) -> bool {
        self.segs.iter().any(|s| !matches!(s, PSeg::Lit(_)))
    }
    /// doc text with all whitespace removed
    pub fn doc_text_squeezed(&self) -> String {
        self.doc.iter().flat_map(|p| p.iter().flat_map(|l| l.iter())).map(|w| w.as_str()).collect::<Vec<_>>().concat()
    }
    pub fn content_type(&self) -> &'static str {
        match self.body {
            BodyKind::Form(_) => "application/x-www-form-urlencoded",
            BodyKind::Multipart => "multipart/form-data",
            BodyKind::Untyped | BodyKind::Streaming => "application/octet-stream",
            _ => "application/json",
        }
    }
    /// (lower bound inclusive, upper bound exclusive) as version strings
    pub fn version_bounds(&self) -> (Option<String>, Option<String>) {
        let v = |s: &VSpec| match s {
            VSpec::Lit(l) => l.clone(),
            VSpec::Const(c) => c.rsplit("V").next().unwrap().replace('_', "."),
        };
        match &self.versions {
            Versions::Unspecified | Versions::All => (None, None),
            Versions::From(a) => (Some(v(a)), None),
            Versions::Until(b) => (None, Some(v(b))),
            Versions::FromUntil(a, b) => (Some(v(a)), Some(v(b))),
        }
    }

    fn attr_args(&self) -> String {
        let mut a = vec![];
        if self.channel {
            a.push("protocol = WEBSOCKETS".to_string());
        } else {
            a.push(format!("method = {}", self.method));
        }
        a.push(format!("path = {:?}", self.path_template()));
        if !self.tags.is_empty() {
            a.push(format!("tags = [{}]", self.tags.iter().map(|t| format!("{:?}", t)).collect::<Vec<_>>().join(", ")));
        }
        let vs = |s: &VSpec| match s {
            VSpec::Lit(l) => format!("{:?}", l),
            VSpec::Const(c) => c.clone(),
        };
        match &self.versions {
            Versions::Unspecified => {}
            Versions::All => a.push("versions = ..".to_string()),
            Versions::From(x) => a.push(format!("versions = {}..", vs(x))),
            Versions::Until(x) => a.push(format!("versions = ..{}", vs(x))),
            Versions::FromUntil(x, y) => a.push(format!("versions = {}..{}", vs(x), vs(y))),
        }
        if let Some(o) = &self.operation_id {
            a.push(format!("operation_id = {:?}", o));
        }
        match self.body {
            BodyKind::Form(_) => a.push("content_type = \"application/x-www-form-urlencoded\"".to_string()),
            BodyKind::Json(_) if self.id % 2 == 0 => a.push("content_type = \"application/json\"".to_string()),
            _ => {}
        }
        if let Some((n, c)) = self.max_bytes {
            if c {
                a.push(format!("request_body_max_bytes = MAX_BYTES_{}", self.id));
            } else {
                a.push(format!("request_body_max_bytes = {}", n));
            }
        }
        if self.deprecated {
            a.push("deprecated = true".to_string());
        }
        if self.unpublished {
            a.push("unpublished = true".to_string());
        }
        a.join(",\n        ")
    }

    fn doc_source(&self, indent: &str) -> String {
        let mut out = String::new();
        if self.doc.is_empty() {
            return out;
        }
        let esc = |s: &str| s.replace('\\', "\\\\").replace('"', "\\\"");
        match self.doc_style {
            DocStyle::None => {}
            DocStyle::TripleSlash => {
                if self.doc_leading_blank {
                    out.push_str(&format!("{}///\n", indent));
                }
                for (pi, p) in self.doc.iter().enumerate() {
                    if pi > 0 {
                        out.push_str(&format!("{}///\n", indent));
                    }
                    for l in p {
                        out.push_str(&format!("{}/// {}\n", indent, l.join(" ")));
                    }
                }
            }
            DocStyle::DocAttr => {
                for (pi, p) in self.doc.iter().enumerate() {
                    if pi > 0 {
                        out.push_str(&format!("{}#[doc = \"\"]\n", indent));
                    }
                    for l in p {
                        out.push_str(&format!("{}#[doc = \"{}\"]\n", indent, esc(&l.join(" "))));
                    }
                }
            }
            DocStyle::Block => {
                out.push_str(&format!("{}/**\n", indent));
                for (pi, p) in self.doc.iter().enumerate() {
                    if pi > 0 {
                        out.push_str(&format!("{} *\n", indent));
                    }
                    for l in p {
                        out.push_str(&format!("{} * {}\n", indent, l.join(" ").replace("*/", "* /")));
                    }
                }
                out.push_str(&format!("{} */\n", indent));
            }
        }
        out
    }

    fn params(&self, ctx_ty: &str) -> String {
        let mut p = vec![format!("rqctx: RequestContext<{}>", ctx_ty)];
        let path = if self.has_path_params() { Some(format!("path: Path<GenPath{}>", self.id)) } else { None };
        let query = self.query.map(|q| format!("query: Query<Q{}>", q));
        if self.query_first {
            p.extend(query.clone());
            p.extend(path.clone());
        } else {
            p.extend(path);
            p.extend(query);
        }
        if self.channel {
            p.push("upgraded: WebsocketConnection".to_string());
        } else {
            match self.body {
                BodyKind::None => {}
                BodyKind::Json(k) => p.push(format!("body: TypedBody<B{}>", k)),
                BodyKind::Form(k) => p.push(format!("body: TypedBody<F{}>", k)),
                BodyKind::Untyped => p.push("body: UntypedBody".to_string()),
                BodyKind::Streaming => p.push("body: StreamingBody".to_string()),
                BodyKind::Multipart => p.push("body: MultipartBody".to_string()),
            }
        }
        p.join(",\n        ")
    }

    fn ret_type(&self) -> String {
        if self.channel {
            return "WebsocketChannelResult".to_string();
        }
        let ok = match &self.ret {
            RetKind::Ok(k) => format!("HttpResponseOk<R{}>", k),
            RetKind::Created(k) => format!("HttpResponseCreated<R{}>", k),
            RetKind::Accepted(k) => format!("HttpResponseAccepted<R{}>", k),
            RetKind::Deleted => "HttpResponseDeleted".to_string(),
            RetKind::Updated => "HttpResponseUpdatedNoContent".to_string(),
            RetKind::Found => "HttpResponseFound".to_string(),
            RetKind::SeeOther => "HttpResponseSeeOther".to_string(),
            RetKind::TempRedirect => "HttpResponseTemporaryRedirect".to_string(),
            RetKind::WithHeaders(k) => format!("HttpResponseHeaders<HttpResponseOk<R{}>, GenHeaders>", k),
            RetKind::Freeform => "Response<Body>".to_string(),
        };
        format!("Result<{}, {}>", ok, if self.custom_error { "GenError" } else { "HttpError" })
    }

    fn body_source(&self) -> String {
        let mut s = String::new();
        s.push_str("        rqctx.context().entered.fetch_add(1, std::sync::atomic::Ordering::SeqCst);\n");
        s.push_str("        rqctx.context().limits.lock().unwrap().insert(rqctx.endpoint.operation_id.clone(), rqctx.request_body_max_bytes());\n");
        if self.has_path_params() {
            s.push_str("        let _ = path;\n");
        }
        if self.query.is_some() {
            s.push_str("        let _ = query;\n");
        }
        if self.channel {
            s.push_str("        let _ = upgraded;\n        Ok(())\n");
            return s;
        }
        if self.body != BodyKind::None {
            s.push_str("        let _ = body;\n");
        }
        let e = if self.custom_error { "GenError::from(HttpError::for_bad_request(None, \"x\".into()))" } else { "HttpError::for_bad_request(None, \"x\".into())" };
        s.push_str(&match &self.ret {
            RetKind::Ok(k) => format!("        Ok(HttpResponseOk(R{}::default()))\n", k),
            RetKind::Created(k) => format!("        Ok(HttpResponseCreated(R{}::default()))\n", k),
            RetKind::Accepted(k) => format!("        Ok(HttpResponseAccepted(R{}::default()))\n", k),
            RetKind::Deleted => "        Ok(HttpResponseDeleted())\n".to_string(),
            RetKind::Updated => "        Ok(HttpResponseUpdatedNoContent())\n".to_string(),
            RetKind::Found => format!("        http_response_found(\"/there\".to_string()).map_err(|_| {})\n", e),
            RetKind::SeeOther => format!("        http_response_see_other(\"/there\".to_string()).map_err(|_| {})\n", e),
            RetKind::TempRedirect => format!("        http_response_temporary_redirect(\"/there\".to_string()).map_err(|_| {})\n", e),
            RetKind::WithHeaders(k) => format!("        Ok(HttpResponseHeaders::new(HttpResponseOk(R{}::default()), GenHeaders {{ x_gen: \"v\".to_string() }}))\n", k),
            RetKind::Freeform => "        Ok(Response::builder().status(200).header(\"content-type\", \"text/plain\").body(Body::from(\"free\")).unwrap())\n".to_string(),
        });
        s
    }

    pub fn render_fn(&self) -> String {
        let macro_name = if self.channel { "channel" } else { "endpoint" };
        format!(
            "{}    #[{} {{\n        {}\n    }}]\n    pub async fn {}(\n        {}\n    ) -> {} {{\n{}    }}\n",
            self.doc_source("    "),
            macro_name,
            self.attr_args(),
            self.fn_name(),
            self.params("GenCtx"),
            self.ret_type(),
            self.body_source()
        )
    }

    pub fn render_trait_decl(&self) -> String {
        let macro_name = if self.channel { "channel" } else { "endpoint" };
        format!(
            "{}        #[{} {{\n        {}\n        }}]\n        async fn {}(\n        {}\n        ) -> {};\n",
            self.doc_source("        "),
            macro_name,
            self.attr_args(),
            self.fn_name(),
            self.params("Self::Context"),
            self.ret_type()
        )
    }

    pub fn render_trait_impl(&self) -> String {
        format!("        async fn {}(\n        {}\n        ) -> {} {{\n{}        }}\n", self.fn_name(), self.params("Self::Context"), self.ret_type(), self.body_source())
    }

    fn path_struct(&self) -> String {
        if !self.has_path_params() {
            return String::new();
        }
        let mut s = format!("    #[derive(Deserialize, JsonSchema)]\n    #[allow(dead_code)]\n    pub struct GenPath{} {{\n", self.id);
        for seg in &self.segs {
            match seg {
                PSeg::Var(n, t) => s.push_str(&format!("        pub {}: {},\n", n, t)),
                PSeg::Wild(n) => s.push_str(&format!("        pub {}: Vec<String>,\n", n)),
                _ => {}
            }
        }
        s.push_str("    }\n");
        s
    }
}

pub fn render_program(decls: &[Decl]) -> String {
    let mut s = String::new();
    s.push_str("// @generated by vcheck progen - do not edit\n#![allow(unused_imports, dead_code, unused_variables, clippy::all)]\n\npub use crate::prelude;\n\n");
    s.push_str("pub mod types {\n    use super::prelude::*;\n");
    for d in decls {
        s.push_str(&d.path_struct());
    }
    s.push_str("}\n\n");
    s.push_str("pub mod consts_root {\n    pub const V1_0_0: semver::Version = semver::Version::new(1, 0, 0);\n    pub const V2_0_0: semver::Version = semver::Version::new(2, 0, 0);\n    pub mod consts {\n        pub const V3_1_4: semver::Version = semver::Version::new(3, 1, 4);\n    }\n");
    for d in decls {
        if let Some((n, true)) = d.max_bytes {
            s.push_str(&format!("    pub const MAX_BYTES_{}: usize = {};\n", d.id, n));
        }
    }
    s.push_str("}\n\n");
    // style A: free functions
    s.push_str("pub mod fn_style {\n    use super::prelude::*;\n    use super::types::*;\n    use super::consts_root::*;\n\n");
    for d in decls {
        s.push_str(&d.render_fn());
        s.push('\n');
    }
    s.push_str("    pub fn api() -> ApiDescription<GenCtx> {\n        let mut api = ApiDescription::new();\n");
    for d in decls {
        s.push_str(&format!("        api.register({}).unwrap();\n", d.fn_name()));
    }
    s.push_str("        api\n    }\n}\n\n");
    // style B/C: trait
    s.push_str("pub mod trait_style {\n    use super::prelude::*;\n    use super::types::*;\n    use super::consts_root::*;\n\n    #[dropshot::api_description]\n    pub trait GenApi {\n        type Context;\n\n");
    for d in decls {
        s.push_str(&d.render_trait_decl());
        s.push('\n');
    }
    s.push_str("    }\n\n    pub enum GenImpl {}\n    impl GenApi for GenImpl {\n        type Context = GenCtx;\n\n");
    for d in decls {
        s.push_str(&d.render_trait_impl());
        s.push('\n');
    }
    s.push_str("    }\n\n    pub fn api() -> ApiDescription<GenCtx> {\n        gen_api_mod::api_description::<GenImpl>().unwrap()\n    }\n    pub fn stub() -> ApiDescription<dropshot::StubContext> {\n        gen_api_mod::stub_api_description().unwrap()\n    }\n}\n");
    s
}
