//! Typed echo API used by the live checks (C09, C10, C11, C07 baseline):
//! every handler returns a lossless rendering of what it received.

use dropshot::{
    endpoint, ApiDescription, HttpError, HttpResponseOk, MultipartBody, Path, Query, RequestContext, StreamingBody,
    TypedBody, UntypedBody,
};
use futures::StreamExt;
use schemars::JsonSchema;
use serde::{Deserialize, Serialize};
use serde_json::{json, Value};
use std::collections::BTreeMap;
use std::sync::atomic::{AtomicU64, Ordering};
use std::sync::Mutex;

/// f64 that serialises as its bit pattern (lossless echo), deserialises
/// as an ordinary number
#[derive(Clone, Copy, Debug, PartialEq)]
pub struct F64Bits(pub f64);
impl Serialize for F64Bits {
    fn serialize<S: serde::Serializer>(&self, s: S) -> Result<S::Ok, S::Error> {
        s.serialize_u64(self.0.to_bits())
    }
}
impl<'de> Deserialize<'de> for F64Bits {
    fn deserialize<D: serde::Deserializer<'de>>(d: D) -> Result<Self, D::Error> {
        Ok(F64Bits(f64::deserialize(d)?))
    }
}
impl JsonSchema for F64Bits {
    fn schema_name() -> String {
        "double".into()
    }
    fn is_referenceable() -> bool {
        false
    }
    fn json_schema(g: &mut schemars::gen::SchemaGenerator) -> schemars::schema::Schema {
        f64::json_schema(g)
    }
}

#[derive(Clone, Copy, Debug, PartialEq, Eq, Serialize, Deserialize, JsonSchema)]
#[serde(rename_all = "kebab-case")]
pub enum Color {
    Red,
    DarkGreen,
    #[serde(rename = "BLUE")]
    Blue,
}
pub const COLORS: [(Color, &str); 3] = [(Color::Red, "red"), (Color::DarkGreen, "dark-green"), (Color::Blue, "BLUE")];

#[derive(Clone, Debug, PartialEq, Serialize, Deserialize, JsonSchema)]
pub struct PathArgs {
    pub s: String,
    pub n: u32,
    pub id: uuid::Uuid,
    pub color: Color,
    pub neg: i64,
    pub flag: bool,
}

#[derive(Clone, Debug, PartialEq, Serialize, Deserialize, JsonSchema)]
pub struct PathArgsP {
    pub ps: String,
    pub pn: u32,
    pub pid: uuid::Uuid,
    pub pcolor: Color,
    pub pneg: i64,
    pub pflag: bool,
}

#[derive(Clone, Debug, PartialEq, Serialize, Deserialize, JsonSchema)]
pub struct WildArgs {
    pub rest: Vec<String>,
}

/// An enum mixing a unit variant and a data-carrying one.  dropshot refuses it as a path parameter
/// at registration (not scalar); the endpoint below only exists if that refusal ever goes away, and
/// then a request naming the data-carrying variant must still get a 4xx.
#[derive(Clone, Debug, PartialEq, Serialize, Deserialize, JsonSchema)]
pub enum MixedSel {
    All,
    Id(u32),
}
#[derive(Clone, Debug, PartialEq, Serialize, Deserialize, JsonSchema)]
pub struct MixedPath {
    pub sel: MixedSel,
}

/// wildcard remainders of a non-String element type
#[derive(Clone, Debug, PartialEq, Serialize, Deserialize, JsonSchema)]
pub struct ColorWildArgs {
    pub rest: Vec<Color>,
}
#[derive(Clone, Debug, PartialEq, Serialize, Deserialize, JsonSchema)]
pub struct UuidWildArgs {
    pub rest: Vec<uuid::Uuid>,
}

/// page selector of the paginated echo endpoint (never issued: the endpoint returns no token)
#[derive(Clone, Debug, PartialEq, Serialize, Deserialize)]
pub struct EchoPageSel {
    pub last: u32,
}

#[derive(Clone, Debug, PartialEq, Serialize, Deserialize, JsonSchema)]
pub struct QueryArgs {
    pub tag: String,
    pub s: String,
    pub u8v: u8,
    pub i8v: i8,
    pub i64v: i64,
    pub u64v: u64,
    pub b: bool,
    pub ch: char,
    pub f: F64Bits,
    pub opt: Option<String>,
    pub optn: Option<u16>,
    pub color: Option<Color>,
    #[serde(default)]
    pub d: u16,
}

#[derive(Clone, Debug, PartialEq, Serialize, Deserialize, JsonSchema)]
pub struct TagQuery {
    pub tag: String,
}

#[derive(Clone, Debug, PartialEq, Serialize, Deserialize, JsonSchema)]
pub struct Inner {
    pub name: String,
    pub depth: u8,
    pub child: Option<Box<Inner>>,
}

#[derive(Clone, Debug, PartialEq, Serialize, Deserialize, JsonSchema)]
#[serde(tag = "kind", content = "value")]
pub enum Tagged {
    Text(String),
    Pair { left: i32, right: i32 },
    Nothing,
}

#[derive(Clone, Debug, PartialEq, Serialize, Deserialize, JsonSchema)]
pub struct JsonBody {
    pub text: String,
    pub n64: u64,
    pub i: i64,
    pub small: i8,
    pub f: F64Bits,
    pub flag: bool,
    pub list: Vec<String>,
    pub numbers: Vec<i32>,
    pub nested: Inner,
    pub opt: Option<String>,
    pub map: BTreeMap<String, i32>,
    pub e: Color,
    pub tagged: Tagged,
    #[serde(default)]
    pub dflt: u32,
}

#[derive(Clone, Debug, PartialEq, Serialize, Deserialize, JsonSchema)]
pub struct FormBody {
    pub a: String,
    pub b: i32,
    pub c: bool,
    pub o: Option<String>,
    pub e: Color,
    pub big: u64,
}

#[derive(Default)]
pub struct EchoCtx {
    /// per-operation count of handler entries
    pub entered: Mutex<BTreeMap<String, u64>>,
    pub total_entered: AtomicU64,
    /// for streaming handlers: largest running byte total observed
    pub max_stream_total: AtomicU64,
}

impl EchoCtx {
    pub fn entered_of(&self, op: &str) -> u64 {
        self.entered.lock().unwrap().get(op).copied().unwrap_or(0)
    }
    pub fn total(&self) -> u64 {
        self.total_entered.load(Ordering::SeqCst)
    }
}

fn enter(rq: &RequestContext<EchoCtx>) -> Value {
    let c = rq.context();
    *c.entered.lock().unwrap().entry(rq.endpoint.operation_id.clone()).or_insert(0) += 1;
    c.total_entered.fetch_add(1, Ordering::SeqCst);
    json!({
        "op": rq.endpoint.operation_id,
        "method": rq.request.method().as_str(),
        "uri": rq.request.uri().to_string(),
        "hdr_tag": rq.request.headers().get("x-verif-tag").map(|v| String::from_utf8_lossy(v.as_bytes()).to_string()),
        "hdr_multi": rq.request.headers().get_all("x-verif-multi").iter().map(|v| String::from_utf8_lossy(v.as_bytes()).to_string()).collect::<Vec<_>>(),
        "remote_addr": rq.request.remote_addr().to_string(),
        "request_id": rq.request_id,
        "max_bytes": rq.request_body_max_bytes(),
    })
}

#[derive(Serialize, JsonSchema)]
pub struct EchoOut {
    pub ctx: Value,
    pub path: Value,
    pub query: Value,
    pub body: Value,
}

fn hex(b: &[u8]) -> String {
    let mut s = String::with_capacity(b.len() * 2);
    for x in b {
        s.push_str(&format!("{:02x}", x));
    }
    s
}

pub fn fnv(b: &[u8]) -> u64 {
    let mut h: u64 = 0xcbf29ce484222325;
    for x in b {
        h ^= *x as u64;
        h = h.wrapping_mul(0x100000001b3);
    }
    h
}

pub fn bytes_echo(b: &[u8]) -> Value {
    json!({"len": b.len(), "fnv": fnv(b).to_string(), "hex": if b.len() <= 256 { hex(b) } else { hex(&b[..256]) }})
}

#[endpoint { method = GET, path = "/e/path/{s}/{n}/{id}/{color}/{neg}/{flag}" }]
async fn ve_path(rq: RequestContext<EchoCtx>, p: Path<PathArgs>, q: Query<TagQuery>) -> Result<HttpResponseOk<EchoOut>, HttpError> {
    let ctx = enter(&rq);
    Ok(HttpResponseOk(EchoOut {
        ctx,
        path: serde_json::to_value(p.into_inner()).unwrap(),
        query: serde_json::to_value(q.into_inner()).unwrap(),
        body: Value::Null,
    }))
}

#[endpoint { method = GET, path = "/e/wild/{rest:.*}", unpublished = true }]
async fn ve_wild(rq: RequestContext<EchoCtx>, p: Path<WildArgs>, q: Query<TagQuery>) -> Result<HttpResponseOk<EchoOut>, HttpError> {
    let ctx = enter(&rq);
    Ok(HttpResponseOk(EchoOut {
        ctx,
        path: serde_json::to_value(p.into_inner()).unwrap(),
        query: serde_json::to_value(q.into_inner()).unwrap(),
        body: Value::Null,
    }))
}

#[endpoint { method = GET, path = "/e/mixed/{sel}", unpublished = true }]
async fn ve_mixed(rq: RequestContext<EchoCtx>, p: Path<MixedPath>, q: Query<TagQuery>) -> Result<HttpResponseOk<EchoOut>, HttpError> {
    let ctx = enter(&rq);
    Ok(HttpResponseOk(EchoOut { ctx, path: serde_json::to_value(p.into_inner()).unwrap(), query: serde_json::to_value(q.into_inner()).unwrap(), body: Value::Null }))
}

#[endpoint { method = GET, path = "/e/cwild/{rest:.*}", unpublished = true }]
async fn ve_cwild(rq: RequestContext<EchoCtx>, p: Path<ColorWildArgs>, q: Query<TagQuery>) -> Result<HttpResponseOk<EchoOut>, HttpError> {
    let ctx = enter(&rq);
    Ok(HttpResponseOk(EchoOut { ctx, path: serde_json::to_value(p.into_inner()).unwrap(), query: serde_json::to_value(q.into_inner()).unwrap(), body: Value::Null }))
}

#[endpoint { method = GET, path = "/e/uwild/{rest:.*}", unpublished = true }]
async fn ve_uwild(rq: RequestContext<EchoCtx>, p: Path<UuidWildArgs>, q: Query<TagQuery>) -> Result<HttpResponseOk<EchoOut>, HttpError> {
    let ctx = enter(&rq);
    Ok(HttpResponseOk(EchoOut { ctx, path: serde_json::to_value(p.into_inner()).unwrap(), query: serde_json::to_value(q.into_inner()).unwrap(), body: Value::Null }))
}

/// the first-page parameters of a paginated endpoint are decoded by a different code path than `Query<T>`
#[endpoint { method = GET, path = "/e/page" }]
async fn ve_page(rq: RequestContext<EchoCtx>, q: Query<dropshot::PaginationParams<QueryArgs, EchoPageSel>>) -> Result<HttpResponseOk<EchoOut>, HttpError> {
    let ctx = enter(&rq);
    let p = q.into_inner();
    let limit = rq.page_limit(&p)?.get();
    let scan = match &p.page {
        dropshot::WhichPage::First(s) => serde_json::to_value(s).unwrap(),
        dropshot::WhichPage::Next(_) => json!("next-page"),
    };
    Ok(HttpResponseOk(EchoOut { ctx, path: json!({"limit": limit}), query: scan, body: Value::Null }))
}

#[endpoint { method = GET, path = "/e/query" }]
async fn ve_query(rq: RequestContext<EchoCtx>, q: Query<QueryArgs>) -> Result<HttpResponseOk<EchoOut>, HttpError> {
    let ctx = enter(&rq);
    Ok(HttpResponseOk(EchoOut { ctx, path: Value::Null, query: serde_json::to_value(q.into_inner()).unwrap(), body: Value::Null }))
}

#[endpoint { method = POST, path = "/e/json" }]
async fn ve_json(rq: RequestContext<EchoCtx>, q: Query<TagQuery>, b: TypedBody<JsonBody>) -> Result<HttpResponseOk<EchoOut>, HttpError> {
    let ctx = enter(&rq);
    Ok(HttpResponseOk(EchoOut {
        ctx,
        path: Value::Null,
        query: serde_json::to_value(q.into_inner()).unwrap(),
        body: serde_json::to_value(b.into_inner()).unwrap(),
    }))
}

/// same body type, different path shape and method: path + query + body at once
#[endpoint { method = PUT, path = "/e/all/{ps}/{pn}/{pid}/{pcolor}/{pneg}/{pflag}" }]
async fn ve_all(
    rq: RequestContext<EchoCtx>,
    p: Path<PathArgsP>,
    q: Query<QueryArgs>,
    b: TypedBody<JsonBody>,
) -> Result<HttpResponseOk<EchoOut>, HttpError> {
    let ctx = enter(&rq);
    Ok(HttpResponseOk(EchoOut {
        ctx,
        path: serde_json::to_value(p.into_inner()).unwrap(),
        query: serde_json::to_value(q.into_inner()).unwrap(),
        body: serde_json::to_value(b.into_inner()).unwrap(),
    }))
}

/// the same flat body type as `/e/form`, on an endpoint that declares JSON
#[endpoint { method = POST, path = "/e/flatjson" }]
async fn ve_flatjson(rq: RequestContext<EchoCtx>, q: Query<TagQuery>, b: TypedBody<FormBody>) -> Result<HttpResponseOk<EchoOut>, HttpError> {
    let ctx = enter(&rq);
    Ok(HttpResponseOk(EchoOut { ctx, path: Value::Null, query: serde_json::to_value(q.into_inner()).unwrap(), body: serde_json::to_value(b.into_inner()).unwrap() }))
}

#[endpoint { method = POST, path = "/e/form", content_type = "application/x-www-form-urlencoded" }]
async fn ve_form(rq: RequestContext<EchoCtx>, q: Query<TagQuery>, b: TypedBody<FormBody>) -> Result<HttpResponseOk<EchoOut>, HttpError> {
    let ctx = enter(&rq);
    Ok(HttpResponseOk(EchoOut {
        ctx,
        path: Value::Null,
        query: serde_json::to_value(q.into_inner()).unwrap(),
        body: serde_json::to_value(b.into_inner()).unwrap(),
    }))
}

#[endpoint { method = POST, path = "/e/multipart" }]
async fn ve_multipart(rq: RequestContext<EchoCtx>, q: Query<TagQuery>, mut b: MultipartBody) -> Result<HttpResponseOk<EchoOut>, HttpError> {
    let ctx = enter(&rq);
    let mut parts = vec![];
    loop {
        match b.content.next_field().await {
            Ok(Some(field)) => {
                let name = field.name().map(|s| s.to_string());
                let file = field.file_name().map(|s| s.to_string());
                let ct = field.content_type().map(|m| m.to_string());
                match field.bytes().await {
                    Ok(data) => parts.push(json!({"name": name, "filename": file, "content_type": ct, "data": bytes_echo(&data)})),
                    Err(e) => return Err(HttpError::for_bad_request(None, format!("multipart field: {}", e))),
                }
            }
            Ok(None) => break,
            Err(e) => {
                return Err(HttpError::for_bad_request(
                    None,
                    format!(
                        "multipart: {} (after {} complete parts of {} bytes in total; content-length {:?}, content-type {:?})",
                        e,
                        parts.len(),
                        parts.iter().map(|p| p["data"]["len"].as_u64().unwrap_or(0)).sum::<u64>(),
                        rq.request.headers().get("content-length"),
                        rq.request.headers().get("content-type")
                    ),
                ))
            }
        }
    }
    Ok(HttpResponseOk(EchoOut { ctx, path: Value::Null, query: serde_json::to_value(q.into_inner()).unwrap(), body: json!(parts) }))
}

#[endpoint { method = PUT, path = "/e/raw" }]
async fn ve_raw(rq: RequestContext<EchoCtx>, q: Query<TagQuery>, b: UntypedBody) -> Result<HttpResponseOk<EchoOut>, HttpError> {
    let ctx = enter(&rq);
    Ok(HttpResponseOk(EchoOut { ctx, path: Value::Null, query: serde_json::to_value(q.into_inner()).unwrap(), body: bytes_echo(b.as_bytes()) }))
}

#[endpoint { method = PUT, path = "/e/stream" }]
async fn ve_stream(rq: RequestContext<EchoCtx>, q: Query<TagQuery>, b: StreamingBody) -> Result<HttpResponseOk<EchoOut>, HttpError> {
    let ctx = enter(&rq);
    let mut all = vec![];
    let mut chunks = vec![];
    let stream = b.into_stream();
    tokio::pin!(stream);
    while let Some(c) = stream.next().await {
        let c = c?;
        chunks.push(c.len());
        all.extend_from_slice(&c);
        rq.context().max_stream_total.fetch_max(all.len() as u64, Ordering::SeqCst);
    }
    let mut e = bytes_echo(&all);
    e["chunks"] = json!(chunks.len());
    Ok(HttpResponseOk(EchoOut { ctx, path: Value::Null, query: serde_json::to_value(q.into_inner()).unwrap(), body: e }))
}

#[endpoint { method = GET, path = "/health" }]
async fn ve_health(rq: RequestContext<EchoCtx>) -> Result<HttpResponseOk<String>, HttpError> {
    let _ = enter(&rq);
    Ok(HttpResponseOk("ok".to_string()))
}

pub fn echo_api() -> ApiDescription<EchoCtx> {
    let mut api = ApiDescription::new();
    api.register(ve_path).unwrap();
    api.register(ve_wild).unwrap();
    api.register(ve_query).unwrap();
    api.register(ve_cwild).unwrap();
    api.register(ve_uwild).unwrap();
    api.register(ve_page).unwrap();
    // refused on a correct tree ("must have a scalar type"); see MixedSel
    let _ = crate::core::catch_quiet(|| api.register(ve_mixed).is_ok());
    api.register(ve_json).unwrap();
    api.register(ve_all).unwrap();
    api.register(ve_form).unwrap();
    api.register(ve_flatjson).unwrap();
    api.register(ve_multipart).unwrap();
    api.register(ve_raw).unwrap();
    api.register(ve_stream).unwrap();
    api.register(ve_health).unwrap();
    api
}
