//! A zoo of request/response types for C08 (and the C07 baseline).

#![allow(dead_code)]

use schemars::JsonSchema;
use serde::{Deserialize, Serialize};
use std::collections::{BTreeMap, BTreeSet, HashMap};

macro_rules! d {
    ($($item:item)*) => { $( #[derive(Clone, Debug, Serialize, Deserialize, JsonSchema)] $item )* };
}

d! {
    pub struct Scalars { pub a: u8, pub b: u16, pub c: u32, pub d: u64, pub e: i8, pub f: i16, pub g: i32, pub h: i64, pub i: f32, pub j: f64, pub k: bool, pub l: String, pub m: char, pub n: usize, pub o: isize }
    pub struct Options { pub a: Option<u32>, pub b: Option<String>, pub c: Option<Vec<i8>>, pub d: Option<Inner>, pub e: Option<Option<bool>>, pub f: Option<UnitEnum> }
    /// An inner struct with a doc comment.
    pub struct Inner { pub x: i32, #[serde(default)] pub y: Option<String> }
    pub struct Seqs { pub a: Vec<u8>, pub b: Vec<Inner>, pub c: [u16; 3], pub d: BTreeSet<String>, pub e: Vec<Vec<i32>>, pub f: Vec<Option<u8>> }
    pub struct Maps { pub a: BTreeMap<String, i32>, pub b: HashMap<String, Inner>, pub c: BTreeMap<String, Vec<String>>, pub d: BTreeMap<String, Option<u8>> }
    pub struct Nested { pub inner: Inner, pub deeper: Deeper, pub list: Vec<Deeper> }
    pub struct Deeper { pub inner: Inner, pub opt: Option<Box<Deeper>> }
    pub struct Recursive { pub value: i64, pub children: Vec<Recursive>, pub parent: Option<Box<Recursive>> }
    pub enum UnitEnum { Alpha, Beta, #[serde(rename = "gamma-delta")] GammaDelta }
    #[serde(rename_all = "SCREAMING_SNAKE_CASE")]
    pub enum RenamedUnit { FirstOne, SecondOne }
    /// Doc comment on the enum.
    pub enum DocUnit {
        /// first variant
        One,
        /// second variant
        Two,
    }
    pub enum External { Unit, Newtype(u32), Inner(Inner), Struct { a: i32, b: Option<String> } }
    pub enum WithTuple { Unit, Tuple(u8, String) }
    #[serde(tag = "type")]
    pub enum Internal { Unit, Struct { a: i32 }, Other { b: String, c: Vec<u8> } }
    #[serde(tag = "t", content = "c")]
    pub enum Adjacent { Unit, Newtype(String), Struct { a: bool }, Seq(Vec<i16>) }
    #[serde(untagged)]
    pub enum Untagged { Num(i32), Text(String), Obj { a: u8 }, List(Vec<bool>) }
    #[serde(deny_unknown_fields)]
    pub struct Strict { pub a: u32, pub b: Option<String> }
    #[serde(rename_all = "camelCase")]
    pub struct Renamed { pub first_field: u32, #[serde(rename = "2nd")] pub second_field: String, #[serde(alias = "old")] pub third_field: bool }
    pub struct WithDefaults { #[serde(default)] pub a: u32, #[serde(default = "default_name")] pub b: String, #[serde(default)] pub c: Vec<u8>, #[serde(skip_serializing_if = "Option::is_none")] pub d: Option<i64> }
    pub struct Ranges {
        #[schemars(range(min = 1, max = 10))] pub a: u32,
        #[schemars(range(min = -5))] pub b: i64,
        #[schemars(range(max = 100))] pub c: u8,
        #[schemars(range(min = 0.5, max = 99.5))] pub d: f64,
    }
    pub struct Lengths {
        #[schemars(length(min = 1, max = 5))] pub a: String,
        #[schemars(length(min = 2))] pub b: Vec<u8>,
        #[schemars(length(max = 3))] pub c: Vec<String>,
        #[schemars(length(equal = 4))] pub d: String,
    }
    pub struct Patterns {
        #[schemars(regex(pattern = "^[a-z]+$"))] pub a: String,
        #[schemars(regex(pattern = "^[0-9]{3}-[0-9]{2}$"))] pub b: String,
        #[schemars(email)] pub c: String,
        #[schemars(url)] pub d: String,
    }
    /// Struct level documentation
    ///
    /// with a second paragraph.
    pub struct Documented {
        /// field doc
        pub a: u32,
        /// another
        ///
        /// multi-paragraph field doc
        pub b: Inner,
        #[schemars(title = "Custom title", description = "custom description")] pub c: String,
    }
    pub struct Formats { pub id: uuid::Uuid, pub when: chrono::DateTime<chrono::Utc>, pub date: chrono::NaiveDate, pub ip: std::net::IpAddr, pub v4: std::net::Ipv4Addr, pub v6: std::net::Ipv6Addr, pub path: std::path::PathBuf, pub dur: std::time::Duration }
    pub struct Tuples { pub newtype: Newtype, pub unit: (), pub nz: std::num::NonZeroU32, pub nz8: std::num::NonZeroU8 }
    pub struct Newtype(pub u16);
    #[serde(transparent)]
    pub struct Transparent { pub inner: String }
    pub struct Flattened { pub a: u8, #[serde(flatten)] pub inner: Inner }
    pub struct FlattenedEnum { pub id: u32, #[serde(flatten)] pub kind: Internal }
    pub struct Generic<T> { pub value: T, pub list: Vec<T> }
    pub struct UsesGeneric { pub a: Generic<u8>, pub b: Generic<String>, pub c: Generic<Inner> }
    #[deprecated]
    pub struct DeprecatedStruct { pub a: u8 }
    pub struct HasDeprecated { #[deprecated] pub old: Option<u8>, pub new: u8 }
    #[schemars(example = "example_inner")]
    pub struct WithExample { pub a: u8, pub inner: Inner }
    pub struct ReadWrite { #[schemars(skip_deserializing)] pub ro: Option<u8>, pub rw: u8 }
    pub struct ValueHolder { pub any: serde_json::Value, pub map: serde_json::Map<String, serde_json::Value>, pub opt_any: Option<serde_json::Value> }
    pub struct Bytes { pub raw: Vec<u8>, pub fixed: [u8; 4], pub ch: char }
    pub enum MixedDoc {
        /// plain unit with doc
        A,
        B,
        /// struct variant with doc
        C { x: u8 },
    }
    pub struct BigInts { pub a: u128, pub b: i128, pub c: Vec<u64> }
    pub struct EnumHolder { pub unit: UnitEnum, pub ext: External, pub int: Internal, pub adj: Adjacent, pub unt: Untagged, pub opt: Option<External>, pub list: Vec<Internal>, pub map: BTreeMap<String, UnitEnum> }
    #[serde(untagged)]
    pub enum Overlap { Short { a: u8 }, Long { a: u8, b: String }, Other { c: bool } }
    #[serde(untagged)]
    pub enum NumOverlap { Whole(i64), Fractional(f64), Text(String) }
    pub struct OverlapHolder { pub o: Overlap, pub n: Vec<NumOverlap>, pub maybe: Option<Overlap> }
    /// nested options and boxes around named and inline types
    pub struct Wrappers { pub a: Option<Box<Inner>>, pub b: Box<Option<u8>>, pub c: Vec<Box<UnitEnum>>, pub d: Option<Vec<Option<Inner>>>, pub e: BTreeMap<String, Option<UnitEnum>>, pub f: Option<BTreeMap<String, Inner>> }
    #[serde(rename_all = "lowercase")]
    pub enum LowerUnit { North, South }
    /// internally tagged with a renamed tag value and a newtype variant around a struct
    #[serde(tag = "kind", rename_all = "snake_case")]
    pub enum TaggedNewtype { PlainUnit, Wraps(Inner), WithFields { how_many: u8, names: Vec<String> } }
    /// adjacently tagged with documentation on variants
    #[serde(tag = "t", content = "c")]
    pub enum AdjDoc {
        /// nothing inside
        Empty,
        /// a number
        Num(u64),
        /// two things
        Pair(u8, bool),
    }
    pub struct Defaults2 { #[serde(default = "d_true")] pub on: bool, #[serde(default = "d_seven")] pub n: i16, #[serde(default)] pub inner: Option<Inner>, #[serde(default = "d_unit")] pub which: UnitEnum, #[serde(default = "d_list")] pub list: Vec<u8> }
    pub struct Lengths2 {
        #[schemars(length(min = 1))] pub a: BTreeMap<String, u8>,
        #[schemars(length(min = 2, max = 2))] pub b: Vec<Inner>,
        #[schemars(length(max = 0))] pub c: String,
        #[schemars(inner(length(min = 1, max = 3)))] pub d: Vec<String>,
        #[schemars(inner(range(min = 5, max = 9)))] pub e: Vec<u8>,
    }
    pub struct Ranges2 {
        #[schemars(range(min = 0.0))] pub a: f32,
        #[schemars(range(max = -1))] pub b: i8,
        #[schemars(range(min = 18446744073709551615u64))] pub c: u64,
        #[schemars(range(min = 1, max = 1))] pub d: Option<u16>,
    }
    pub struct SetsAndTuples { pub s: BTreeSet<i32>, pub h: std::collections::HashSet<u16>, pub o: Option<BTreeSet<String>>, pub fixed: [[u8; 2]; 2], pub deque: std::collections::VecDeque<i8> }
    /// a struct whose every field is optional
    pub struct AllOptional { pub a: Option<u8>, pub b: Option<String>, pub c: Option<Inner>, pub d: Option<Vec<u8>> }
    #[serde(deny_unknown_fields, rename_all = "SCREAMING-KEBAB-CASE")]
    pub struct StrictRenamed { pub first_one: u8, pub second: Option<Inner> }
    #[serde(untagged)]
    pub enum UntaggedNamed { A(Inner), B(Strict), C(Vec<Inner>), D(Option<u8>) }
    pub struct RefHolder { pub u: UntaggedNamed, pub t: TaggedNewtype, pub a: AdjDoc, pub l: LowerUnit, pub w: Box<Wrappers>, pub o: Option<AllOptional> }
    #[schemars(deny_unknown_fields)]
    pub struct SchemaOnlyStrict { pub a: u8 }
    #[schemars(title = "A title", description = "A description that is not a doc comment")]
    pub struct Titled { #[schemars(title = "field title")] pub a: Option<Inner>, #[schemars(description = "desc on a ref field")] pub b: Inner, #[deprecated] #[schemars(description = "deprecated ref")] pub c: Option<UnitEnum> }
    pub struct Chars { pub c: char, pub oc: Option<char>, pub vc: Vec<char> }
    pub struct SignedNonZero { pub b: std::num::NonZeroI8 }
    pub struct Nums { pub a: std::num::NonZeroU64, pub c: Option<std::num::NonZeroU16>, pub d: f32, pub e: Option<f64>, pub f: u128 }
    pub struct Bounds2 {
        #[schemars(range(min = 0, max = 0))] pub zero: i32,
        #[schemars(range(min = -128, max = 127))] pub small: i8,
        #[schemars(length(min = 0, max = 0))] pub empty: Vec<u8>,
    }
}

fn d_true() -> bool {
    true
}
fn d_seven() -> i16 {
    7
}
fn d_unit() -> UnitEnum {
    UnitEnum::Beta
}
fn d_list() -> Vec<u8> {
    vec![1, 2]
}
fn default_name() -> String {
    "dflt".into()
}
fn example_inner() -> WithExample {
    WithExample { a: 7, inner: Inner { x: 1, y: None } }
}
