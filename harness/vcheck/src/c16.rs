//! C16 — client disconnects affect handlers exactly as the task mode promises.

use crate::core::*;
use crate::dynapi::start_server;
use crate::http1;
use crate::lifeapi::*;
use crate::{ensure, fail};
use dropshot::HandlerTaskMode;
use http_body_util::BodyExt;
use proptest::prelude::*;
use serde::{Deserialize, Serialize};
use serde_json::json;
use std::sync::Arc;
use std::time::Duration;

#[derive(Clone, Copy, Debug, PartialEq, Eq, Serialize, Deserialize)]
pub enum Kind {
    Hold,
    Upload,
    Big,
    Panic,
}

#[derive(Clone, Copy, Debug, PartialEq, Eq, Serialize, Deserialize)]
pub enum Point {
    /// close after sending only part of the request head
    SendingHeaders(u16),
    /// close after sending the head and part of the declared body
    SendingBody(u16),
    /// close right after the complete request, without waiting for anything
    AfterRequest,
    /// wait until the handler has signalled entry, then close
    WhileWaiting,
    /// read a little of a large response, stop reading, then close
    WhileResponse,
    /// stay connected and read the whole response
    Never,
}

#[derive(Clone, Copy, Debug, PartialEq, Eq, Serialize, Deserialize)]
pub enum Proto {
    H1,
    /// HTTP/2 with prior knowledge; disconnect = drop the whole connection
    H2DropConn,
    /// HTTP/2; disconnect = cancel just this request (RST_STREAM)
    H2ResetStream,
}

#[derive(Clone, Debug, Serialize, Deserialize)]
pub struct ClientSpec {
    pub kind: Kind,
    pub proto: Proto,
    pub point: Point,
    pub rst: bool,
    pub drop_ctx: bool,
    pub start_delay_ms: u8,
    /// upper bound (ms) of the handler's own wait when nobody releases it; 0 = MAX_HOLD_MS
    #[serde(default)]
    pub hold_ms: u32,
}

#[derive(Clone, Debug, Serialize, Deserialize)]
pub struct Scenario {
    /// serve over HTTPS (HTTP/2 clients then fall back to HTTP/1.1 inside TLS)
    #[serde(default)]
    pub tls: bool,
    pub detached: bool,
    pub clients: Vec<ClientSpec>,
    pub server_workers: u8,
    /// build the server with HttpServerStarter::new / new_with_tls instead of ServerBuilder
    #[serde(default)]
    pub legacy_starter: bool,
}

fn client_spec() -> impl Strategy<Value = ClientSpec> {
    let point = prop_oneof![
        1 => (1u16..999).prop_map(Point::SendingHeaders),
        1 => (0u16..999).prop_map(Point::SendingBody),
        1 => Just(Point::AfterRequest),
        4 => Just(Point::WhileWaiting),
        1 => Just(Point::WhileResponse),
        4 => Just(Point::Never),
    ];
    (
        prop_oneof![5 => Just(Kind::Hold), 2 => Just(Kind::Upload), 1 => Just(Kind::Big), 1 => Just(Kind::Panic)],
        prop_oneof![4 => Just(Proto::H1), 1 => Just(Proto::H2DropConn), 1 => Just(Proto::H2ResetStream)],
        point,
        any::<bool>(),
        prop::bool::weighted(0.3),
        0u8..6,
    )
        .prop_map(|(kind, proto, point, rst, drop_ctx, start_delay_ms)| {
            // normalise combinations that make no sense
            let mut kind = kind;
            let mut point = point;
            let mut proto = proto;
            if proto != Proto::H1 {
                kind = Kind::Hold;
                if !matches!(point, Point::WhileWaiting | Point::Never) {
                    point = Point::WhileWaiting;
                }
            }
            match (kind, point) {
                (Kind::Big, Point::WhileWaiting) | (Kind::Big, Point::SendingBody(_)) => point = Point::WhileResponse,
                (k, Point::WhileResponse) if k != Kind::Big => kind = Kind::Big,
                (k, Point::SendingBody(_)) if k != Kind::Upload => kind = Kind::Upload,
                (Kind::Panic, Point::WhileWaiting) => point = Point::Never,
                _ => {}
            }
            if kind == Kind::Big || kind == Kind::Panic {
                proto = Proto::H1;
            }
            ClientSpec { kind, proto, point, rst, drop_ctx: drop_ctx && kind == Kind::Hold, start_delay_ms, hold_ms: 0 }
        })
}

pub fn scenario(max_clients: usize) -> impl Strategy<Value = Scenario> {
    (prop::bool::weighted(0.25), any::<bool>(), proptest::collection::vec(client_spec(), 1..=max_clients), 1u8..5, prop::bool::weighted(0.2)).prop_map(|(tls, detached, mut clients, server_workers, legacy_starter)| {
        if tls {
            for c in clients.iter_mut() {
                c.proto = Proto::H1;
            }
        }
        Scenario { tls, detached, clients, server_workers, legacy_starter }
    })
}

pub const BIG_SIZE: u32 = 4 << 20;
pub const MAX_HOLD_MS: u64 = 4000;

pub fn request_for(c: &ClientSpec, id: u64) -> (Vec<u8>, usize) {
    // returns (bytes, length of the head)
    match c.kind {
        Kind::Hold => {
            let r = http1::build_request("GET", &format!("/hold?id={}&max_ms={}&drop_ctx={}", id, if c.hold_ms > 0 { c.hold_ms as u64 } else { MAX_HOLD_MS }, c.drop_ctx), &[], None);
            let n = r.len();
            (r, n)
        }
        Kind::Panic => {
            let r = http1::build_request("GET", &format!("/panic?id={}&max_ms=5", id), &[], None);
            let n = r.len();
            (r, n)
        }
        Kind::Big => {
            let r = http1::build_request("GET", &format!("/big?id={}&size={}", id, BIG_SIZE), &[], None);
            let n = r.len();
            (r, n)
        }
        Kind::Upload => {
            let body = vec![b'u'; 600];
            let r = http1::build_request("POST", &format!("/upload?id={}&max_ms={}", id, MAX_HOLD_MS), &[], Some(&body));
            let head = r.len() - body.len();
            (r, head)
        }
    }
}

#[derive(Debug)]
pub enum ClientResult {
    /// left at the scripted point
    Left,
    /// stayed; response status and whether the body was as expected
    Stayed { status: u16, ok: bool, detail: String },
    /// connection ended without a response (expected for the panicking request)
    NoResponse(String),
}

pub async fn run_h1(addr: std::net::SocketAddr, log: Arc<EventLog>, c: ClientSpec, id: u64) -> Result<ClientResult, Failure> {
    run_h1_with(addr, false, log, c, id).await
}

pub async fn run_h1_with(addr: std::net::SocketAddr, tls: bool, log: Arc<EventLog>, c: ClientSpec, id: u64) -> Result<ClientResult, Failure> {
    tokio::time::sleep(Duration::from_millis(c.start_delay_ms as u64)).await;
    let mut conn = http1::Conn::connect_with(addr, tls).await.map_err(|e| Failure::new("connect", e.to_string()))?;
    let (req, head_len) = request_for(&c, id);
    let close = |conn: http1::Conn, rst: bool| {
        if rst {
            conn.abort();
        } else {
            drop(conn);
        }
    };
    match c.point {
        Point::SendingHeaders(f) => {
            let k = 1 + (f as usize * (head_len - 1)) / 1000; // 1..head_len-1
            let _ = conn.send(&req[..k.min(head_len - 1)]).await;
            tokio::time::sleep(Duration::from_millis(2)).await;
            close(conn, c.rst);
            log.push(Ev::ClientGone(id));
            Ok(ClientResult::Left)
        }
        Point::SendingBody(f) => {
            let body_len = req.len() - head_len;
            let k = head_len + (f as usize * body_len) / 1000; // < full length
            let _ = conn.send(&req[..k.min(req.len() - 1)]).await;
            tokio::time::sleep(Duration::from_millis(2)).await;
            close(conn, c.rst);
            log.push(Ev::ClientGone(id));
            Ok(ClientResult::Left)
        }
        Point::AfterRequest => {
            let _ = conn.send(&req).await;
            close(conn, c.rst);
            log.push(Ev::ClientGone(id));
            Ok(ClientResult::Left)
        }
        Point::WhileWaiting => {
            conn.send(&req).await.map_err(|e| Failure::new("send", e.to_string()))?;
            let entered = log.wait_for(Duration::from_secs(10), |l| l.has(Ev::Entered(id))).await;
            ensure!(entered, "request-never-entered", "client {}: complete request sent but the handler never started", id);
            close(conn, c.rst);
            log.push(Ev::ClientGone(id));
            Ok(ClientResult::Left)
        }
        Point::WhileResponse => {
            conn.send(&req).await.map_err(|e| Failure::new("send", e.to_string()))?;
            use tokio::io::AsyncReadExt;
            let mut buf = [0u8; 1024];
            let _ = tokio::time::timeout(Duration::from_secs(5), conn.stream.read(&mut buf)).await;
            tokio::time::sleep(Duration::from_millis(5)).await;
            close(conn, c.rst);
            log.push(Ev::ClientGone(id));
            Ok(ClientResult::Left)
        }
        Point::Never => {
            conn.send(&req).await.map_err(|e| Failure::new("send", e.to_string()))?;
            match conn.read_response(false, Duration::from_secs(30)).await {
                http1::ReadOutcome::Resp(r) => {
                    log.push(Ev::ResponseRead(id));
                    let ok = match c.kind {
                        Kind::Hold | Kind::Upload => r.status == 200 && r.json().map(|j| j["id"] == json!(id)).unwrap_or(false),
                        Kind::Big => r.status == 200 && r.body.len() == BIG_SIZE as usize && r.body.iter().enumerate().all(|(i, b)| *b == (i % 251) as u8),
                        Kind::Panic => false,
                    };
                    Ok(ClientResult::Stayed { status: r.status, ok, detail: truncate(&String::from_utf8_lossy(&r.body[..r.body.len().min(200)]), 200) })
                }
                other => Ok(ClientResult::NoResponse(format!("{:?}", other.resp().err()))),
            }
        }
    }
}

pub async fn run_h2(addr: std::net::SocketAddr, log: Arc<EventLog>, c: ClientSpec, id: u64) -> Result<ClientResult, Failure> {
    use hyper_util::rt::{TokioExecutor, TokioIo};
    tokio::time::sleep(Duration::from_millis(c.start_delay_ms as u64)).await;
    let stream = tokio::net::TcpStream::connect(addr).await.map_err(|e| Failure::new("connect", e.to_string()))?;
    let (mut sender, conn) = hyper::client::conn::http2::handshake::<_, _, http_body_util::Empty<bytes::Bytes>>(TokioExecutor::new(), TokioIo::new(stream))
        .await
        .map_err(|e| Failure::new("h2-handshake", e.to_string()))?;
    let conn_task = tokio::spawn(async move {
        let _ = conn.await;
    });
    let uri = format!("http://{}/hold?id={}&max_ms={}&drop_ctx={}", addr, id, if c.hold_ms > 0 { c.hold_ms as u64 } else { MAX_HOLD_MS }, c.drop_ctx);
    let req = hyper::Request::builder().method("GET").uri(uri).body(http_body_util::Empty::<bytes::Bytes>::new()).unwrap();
    let fut = sender.send_request(req);
    match c.point {
        Point::WhileWaiting => {
            let mut fut = Box::pin(fut);
            // drive the request until the handler has entered
            let entered = tokio::select! {
                _ = &mut fut => false,
                e = log.wait_for(Duration::from_secs(10), |l| l.has(Ev::Entered(id))) => e,
            };
            ensure!(entered, "request-never-entered", "h2 client {}: handler never started", id);
            match c.proto {
                Proto::H2ResetStream => {
                    drop(fut); // cancels the stream
                    // keep the connection alive for a moment so that the reset is sent
                    tokio::time::sleep(Duration::from_millis(20)).await;
                    log.push(Ev::ClientGone(id));
                    drop(sender);
                    conn_task.abort();
                }
                _ => {
                    drop(fut);
                    drop(sender);
                    conn_task.abort();
                    log.push(Ev::ClientGone(id));
                }
            }
            Ok(ClientResult::Left)
        }
        _ => {
            let r = tokio::time::timeout(Duration::from_secs(30), fut).await;
            let out = match r {
                Ok(Ok(resp)) => {
                    let status = resp.status().as_u16();
                    let body = resp.into_body().collect().await.map(|b| b.to_bytes()).unwrap_or_default();
                    log.push(Ev::ResponseRead(id));
                    let ok = status == 200 && serde_json::from_slice::<serde_json::Value>(&body).map(|j| j["id"] == json!(id)).unwrap_or(false);
                    ClientResult::Stayed { status, ok, detail: truncate(&String::from_utf8_lossy(&body), 200) }
                }
                Ok(Err(e)) => ClientResult::NoResponse(e.to_string()),
                Err(_) => ClientResult::NoResponse("timeout".into()),
            };
            drop(sender);
            conn_task.abort();
            Ok(out)
        }
    }
}

pub fn check_scenario(rt: &tokio::runtime::Runtime, s: &Scenario, st: &mut Stats) -> Result<(), Failure> {
    let srt = tokio::runtime::Builder::new_multi_thread().worker_threads(s.server_workers.max(1) as usize).enable_all().build().unwrap();
    let server = {
        let _g = srt.enter();
        let cfg = dropshot::ConfigDropshot {
            default_handler_task_mode: if s.detached { HandlerTaskMode::Detached } else { HandlerTaskMode::CancelOnDisconnect },
            default_request_body_max_bytes: 1 << 20,
            ..Default::default()
        };
        if s.legacy_starter {
            crate::dynapi::start_server_legacy(life_api(), LifeCtx::default(), cfg, s.tls).map_err(|e| Failure::new("server-start", e))?
        } else if s.tls {
            crate::dynapi::start_server_tls(life_api(), LifeCtx::default(), cfg).map_err(|e| Failure::new("server-start", e))?
        } else {
            start_server(life_api(), LifeCtx::default(), cfg, None).map_err(|e| Failure::new("server-start", e))?
        }
    };
    let addr = server.local_addr();
    let tls = s.tls;
    let log = server.app_private().log.clone();
    let mode = if s.detached { "detached" } else { "cancel-on-disconnect" };
    let desc = format!("{}{}mode {} clients {:?}", if s.legacy_starter { "[HttpServerStarter::new] " } else { "" }, if s.tls { "https " } else { "" }, mode, s.clients.iter().map(|c| format!("{:?}/{:?}/{:?}{}{}", c.kind, c.proto, c.point, if c.rst { "/rst" } else { "" }, if c.drop_ctx { "/dropctx" } else { "" })).collect::<Vec<_>>());
    let result: Result<(), Failure> = rt.block_on(async {
        // stayers are released a little after everybody has done their part
        let mut handles = vec![];
        for (i, c) in s.clients.iter().cloned().enumerate() {
            let id = i as u64 + 1;
            let l = log.clone();
            handles.push(tokio::spawn(async move {
                match c.proto {
                    Proto::H1 => run_h1_with(addr, tls, l, c, id).await,
                    _ => run_h2(addr, l, c, id).await,
                }
            }));
        }
        // wait until every leaver has left and every stayer's handler has entered
        let leavers: Vec<u64> = s.clients.iter().enumerate().filter(|(_, c)| c.point != Point::Never).map(|(i, _)| i as u64 + 1).collect();
        let stayers: Vec<u64> = s.clients.iter().enumerate().filter(|(_, c)| c.point == Point::Never).map(|(i, _)| i as u64 + 1).collect();
        let ready = log
            .wait_for(Duration::from_secs(20), |l| leavers.iter().all(|id| l.has(Ev::ClientGone(*id))) && stayers.iter().all(|id| l.has(Ev::Entered(*id))))
            .await;
        if !ready {
            // some client failed early: collect its error below
        }
        // --- phase A: in cancel mode, handlers of complete-request leavers must be cancelled
        let mut kept_running: Vec<u64> = vec![];
        if !s.detached {
            for (i, c) in s.clients.iter().enumerate() {
                let id = i as u64 + 1;
                if c.point == Point::WhileWaiting && log.has(Ev::ClientGone(id)) {
                    let dropped = log.wait_for(Duration::from_millis(2500), |l| l.has(Ev::Dropped(id)) || l.has(Ev::Completed(id))).await;
                    if !dropped {
                        // still running after the grace period: is it making progress?
                        let p1 = log.progress_of(id);
                        tokio::time::sleep(Duration::from_millis(100)).await;
                        let p2 = log.progress_of(id);
                        if p2 > p1 && !log.has(Ev::Dropped(id)) {
                            kept_running.push(id);
                        }
                    }
                }
            }
        } else {
            // in detached mode give disconnects a moment to (wrongly) cancel something
            tokio::time::sleep(Duration::from_millis(30)).await;
        }
        // --- phase B: release everybody
        log.release_all.store(true, std::sync::atomic::Ordering::SeqCst);
        for i in 0..s.clients.len() {
            log.release(i as u64 + 1);
        }
        let mut results = vec![];
        for h in handles {
            results.push(h.await.unwrap_or_else(|e| Err(Failure::new("client-task", e.to_string())))?);
        }
        // every started handler reaches an end event
        let settled = log
            .wait_for(Duration::from_secs(15), |l| {
                let ev = l.snapshot();
                ev.iter().all(|e| match e {
                    Ev::Entered(id) => ev.iter().any(|x| matches!(x, Ev::Completed(i) | Ev::Dropped(i) | Ev::Panicked(i) if i == id)),
                    _ => true,
                })
            })
            .await;
        let ev = log.snapshot();
        let trace = || format!("{} :: events {:?}", desc, ev);
        ensure!(settled, "started-handler-never-ended", "{}", trace());
        st.eval();
        st.count("scenarios");
        st.count(if s.detached { "mode:detached" } else { "mode:cancel" });
        if s.tls {
            st.count("https_scenarios");
        }
        let mut leaver_after_entry = 0;
        for (i, c) in s.clients.iter().enumerate() {
            let id = i as u64 + 1;
            let entered = ev.iter().filter(|e| **e == Ev::Entered(id)).count();
            let completed = ev.iter().filter(|e| **e == Ev::Completed(id)).count();
            let dropped = ev.iter().filter(|e| **e == Ev::Dropped(id)).count();
            let panicked = ev.iter().filter(|e| **e == Ev::Panicked(id)).count();
            st.count(&format!("point:{}", format!("{:?}", c.point).split('(').next().unwrap()));
            if c.proto != Proto::H1 {
                st.count("h2_clients");
            }
            ensure!(entered <= 1, "handler-entered-twice", "client {}: {}", id, trace());
            ensure!(
                completed + dropped + panicked == entered,
                "not-exactly-one-end",
                "client {}: entered {} times but completed {} / cancelled {} / panicked {}: {}",
                id,
                entered,
                completed,
                dropped,
                panicked,
                trace()
            );
            if c.kind == Kind::Panic {
                ensure!(completed == 0, "panicking-handler-completed", "client {}: {}", id, trace());
                continue;
            }
            if matches!(c.point, Point::SendingHeaders(_) | Point::SendingBody(_)) {
                ensure!(entered == 0, "incomplete-request-entered", "client {} never finished sending its request but the handler ran: {}", id, trace());
                continue;
            }
            if s.detached {
                ensure!(
                    dropped == 0,
                    format!("detached-handler-cancelled:{:?}", c.proto),
                    "client {} ({:?} {:?}): in detached mode a started handler must run to completion, but it was cancelled: {}",
                    id,
                    c.proto,
                    c.point,
                    trace()
                );
                if entered == 1 {
                    ensure!(completed == 1, "detached-handler-not-completed", "client {}: {}", id, trace());
                }
            }
            if c.point == Point::WhileWaiting {
                leaver_after_entry += 1;
                if !s.detached {
                    ensure!(
                        !kept_running.contains(&id) && dropped == 1 && completed == 0,
                        format!("cancel-mode-handler-kept-running:{:?}", c.proto),
                        "client {} ({:?}) sent its complete request and disconnected while its handler was waiting; the handler must be cancelled and make no further progress, but completed={} cancelled={} still-progressing-after-grace={}: {}",
                        id,
                        c.proto,
                        completed,
                        dropped,
                        kept_running.contains(&id),
                        trace()
                    );
                }
            }
            if c.point == Point::Never {
                ensure!(completed == 1 && dropped == 0, "stayer-handler-not-completed", "client {} stayed connected: {}", id, trace());
                match &results[i] {
                    ClientResult::Stayed { ok: true, .. } => {}
                    other => fail!("stayer-response", "client {} stayed connected but its response is wrong or missing: {:?}: {}", id, other, trace()),
                }
            }
        }
        if s.clients.len() >= 2 && leaver_after_entry >= 1 {
            st.nontrivial(hash_of(&format!("{:?}", s)));
        }
        // the server keeps serving
        let h = http1::oneshot_with(addr, tls, &http1::build_request("GET", "/health", &[], None), false, Duration::from_secs(10))
            .await
            .map_err(|e| Failure::new("health-after-scenario", format!("{}: {}", e, trace())))?;
        ensure!(h.status == 200, "health-after-scenario", "health {}: {}", h.status, trace());
        st.sample(|| json!({"scenario": desc, "events": format!("{:?}", ev)}));
        Ok(())
    });
    // close with a bound: a wedged shutdown must not hang the check
    let closed = rt.block_on(async { tokio::time::timeout(Duration::from_secs(20), server.close()).await });
    srt.shutdown_background();
    result?;
    ensure!(closed.is_ok(), "close-hangs", "{}: close() did not return within 20 s", desc);
    Ok(())
}

pub fn run(ctx: &mut Ctx) {
    ctx.rule = "scenarios = task mode x 1-16 concurrent clients, each with an endpoint (waiting handler, upload, 4 MiB response, panicking handler), a protocol (HTTP/1.1; HTTP/2 dropping the connection or resetting the stream), a disconnect point (inside the head, inside the body, right after the request, while the handler waits, while the response is written, never) with FIN or RST, and optionally a handler that drops its RequestContext early; server runtime with 1-4 workers. Oracle over the life-cycle event log: each entered handler ends exactly once (completed / cancelled / panicked); detached => never cancelled and always completed; cancel-on-disconnect => a handler whose client left after the complete request is cancelled (within a 2.5 s grace period) and never completes; stayers complete and read a full correct response; unfinished requests never enter a handler; a panicking handler only fails its own request; health probe succeeds afterwards. non-trivial = >= 2 concurrent clients of which >= 1 leaves after handler entry; distinct by scenario".into();
    ctx.assume("tokio's scheduler and kernel socket timing are not controlled; cancellation is given a 2.5 s grace period and judged by further progress, not by latency");
    ctx.max_shrink_iters = 60;
    let rt = tokio::runtime::Builder::new_multi_thread().worker_threads(4).enable_all().build().unwrap();
    let n = ctx.tier.pick(600, 8000);
    ctx.phase("scenarios", n, scenario(ctx.tier.pick(12, 16)), |s, st| check_scenario(&rt, s, st));
    ctx.require_frac("scenarios", "point:WhileWaiting", "scenarios", 0.5);
    ctx.require_frac("scenarios", "h2_clients", "scenarios", 0.3);
}
