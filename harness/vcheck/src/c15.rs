//! C15 — following next-page tokens visits every item exactly once.

use crate::core::*;
use crate::dynapi::start_server;
use crate::encoders::{enc_component, Style};
use crate::http1;
use crate::pagapi::*;
use crate::{ensure, fail};
use proptest::prelude::*;
use serde::{Deserialize, Serialize};
use serde_json::json;
use std::time::Duration;

#[derive(Clone, Debug, Serialize, Deserialize)]
pub enum LimitSpec {
    Absent,
    Fixed(u32),
    /// n + delta
    NearN(i8),
    Edge(u8),
}

#[derive(Clone, Debug, Serialize, Deserialize)]
pub struct ScanCase {
    pub n: u32,
    pub limit: LimitSpec,
    pub descending: bool,
    /// change the limit on later pages (the token alone decides the position)
    pub later_limit: Option<u32>,
    pub pad: Option<String>,
    pub keepalive: bool,
}

const EDGE: [u32; 10] = [1, 2, 99, 100, 101, 9999, 10000, 10001, 25000, u32::MAX];

fn scan_case(big: bool) -> impl Strategy<Value = ScanCase> {
    let n = if big {
        prop_oneof![Just(9999u32), Just(10000), Just(10001), Just(25000), 5000u32..12000].boxed()
    } else {
        prop_oneof![6 => 0u32..300, 1 => Just(0u32), 1 => Just(1), 1 => Just(100), 1 => Just(101), 1 => 300u32..1200].boxed()
    };
    let limit = if big {
        prop_oneof![Just(LimitSpec::Absent).boxed(), (5u8..10).prop_map(LimitSpec::Edge).boxed(), (2000u32..20000).prop_map(LimitSpec::Fixed).boxed(), (-1i8..=1).prop_map(LimitSpec::NearN).boxed()].boxed()
    } else {
        prop_oneof![
            2 => Just(LimitSpec::Absent),
            4 => (1u32..40).prop_map(LimitSpec::Fixed),
            3 => (-2i8..=2).prop_map(LimitSpec::NearN),
            3 => (0u8..10).prop_map(LimitSpec::Edge),
        ]
        .boxed()
    };
    (n, limit, any::<bool>(), proptest::option::weighted(0.2, 1u32..50), proptest::option::weighted(0.35, prop_oneof![7 => "[a-zé日 ]{0,40}", 2 => "[a-z]{230,312}", 1 => "[a-z]{312,420}", 1 => "[a-z]{420,600}"]), any::<bool>())
        .prop_map(|(n, limit, descending, later_limit, pad, keepalive)| ScanCase { n, limit, descending, later_limit, pad, keepalive })
}

fn resolve_limit(c: &ScanCase) -> Option<u32> {
    match &c.limit {
        LimitSpec::Absent => None,
        LimitSpec::Fixed(l) => Some((*l).max(1)),
        LimitSpec::NearN(d) => Some((c.n as i64 + *d as i64).max(1) as u32),
        LimitSpec::Edge(k) => Some(EDGE[*k as usize % EDGE.len()]),
    }
}

fn effective(l: Option<u32>) -> u32 {
    l.map(|l| l.min(10000)).unwrap_or(100)
}

fn check_scan(addr: std::net::SocketAddr, rt: &tokio::runtime::Runtime, c: &ScanCase, st: &mut Stats) -> Result<(), Failure> {
    let first_limit = resolve_limit(c);
    let eff_first = effective(first_limit);
    // keep the number of requests of one scan bounded
    let later = c.later_limit;
    let smallest = later.map(|l| effective(Some(l))).unwrap_or(eff_first).min(eff_first);
    if (c.n as u64) / (smallest as u64) > 1500 {
        st.count("skipped_too_many_pages");
        return Ok(());
    }
    let expected: Vec<u32> = if c.descending { (0..c.n).rev().collect() } else { (0..c.n).collect() };
    let mut st2 = Style(c.n as u64 ^ 0x55);
    let mut target = format!("/items?n={}", c.n);
    if c.descending {
        target.push_str("&order=descending");
    }
    if let Some(p) = &c.pad {
        target.push_str(&format!("&pad={}", enc_component(p, &mut st2, true)));
    }
    if let Some(l) = first_limit {
        target.push_str(&format!("&limit={}", l));
    }
    let desc = format!("scan of n={} limit={:?} later_limit={:?} order={}", c.n, first_limit, later, if c.descending { "descending" } else { "ascending" });
    let res: Result<(Vec<u32>, usize), Failure> = rt.block_on(async {
        let mut got: Vec<u32> = vec![];
        let mut pages = 0usize;
        let mut conn: Option<http1::Conn> = None;
        let mut eff = eff_first;
        // a scan needs at most ceil(n/l)+1 requests; allow exactly that
        let later_eff = later.map(|l| effective(Some(l))).unwrap_or(eff_first) as u64;
        let non_empty: u64 = if c.n == 0 { 0 } else { 1 + ((c.n as u64).saturating_sub(eff_first as u64) + later_eff - 1) / later_eff };
        let budget = non_empty + 1;
        loop {
            ensure!((pages as u64) < budget, "scan-does-not-terminate", "{}: more than {} requests", desc, budget);
            let req = http1::build_request("GET", &target, &[], None);
            if conn.is_none() || !c.keepalive {
                conn = Some(http1::Conn::connect(addr).await.map_err(|e| Failure::new("connect", e.to_string()))?);
            }
            let cn = conn.as_mut().unwrap();
            cn.send(&req).await.map_err(|e| Failure::new("send", e.to_string()))?;
            let resp = match cn.read_response(false, Duration::from_secs(20)).await.resp() {
                Ok(r) => r,
                Err(e) => fail!("no-response", "{}: GET {}: {}", desc, truncate(&target, 200), e),
            };
            if resp.header("connection").map(|c| c.eq_ignore_ascii_case("close")).unwrap_or(false) {
                conn = None;
            }
            if resp.status >= 500 && c.pad.as_ref().map(|p| p.len() >= 290).unwrap_or(false) {
                // the filler makes the page token longer than the framework's maximum: the framework refuses to
                // issue it and the handler fails (a 5xx; a 4xx for a token the framework did issue is not this).  The scan cannot be completed; that is not judged.  What is
                // judged (below) is that it never answers 200 with a non-empty page and no token instead.
                return Err(Failure::new("ABORTED-TOKEN-TOO-LARGE", String::new()));
            }
            ensure!(resp.status == 200, "scan-page-refused", "{}: GET {} -> {} {}", desc, truncate(&target, 300), resp.status, truncate(&resp.body_text(), 200));
            let j = resp.json().ok_or_else(|| Failure::new("page-not-json", desc.clone()))?;
            let items: Vec<u32> = j["items"].as_array().map(|a| a.iter().filter_map(|x| x["v"].as_u64().map(|v| v as u32)).collect()).unwrap_or_default();
            pages += 1;
            ensure!(items.len() as u32 <= eff, "page-over-limit", "{}: page {} has {} items, effective limit {}", desc, pages, items.len(), eff);
            let token = j["next_page"].as_str().map(|s| s.to_string());
            ensure!(
                token.is_some() == !items.is_empty(),
                if items.is_empty() { "token-on-empty-page" } else { "no-token-on-non-empty-page" },
                "{}: page {} has {} items and next_page = {:?}",
                desc,
                pages,
                items.len(),
                token.as_ref().map(|t| truncate(t, 40))
            );
            got.extend(items);
            ensure!(got.len() <= expected.len() + 1, "scan-too-many-items", "{}: already {} items", desc, got.len());
            match token {
                None => break,
                Some(t) => {
                    target = format!("/items?page_token={}", enc_component(&t, &mut st2, false));
                    if let Some(l) = later {
                        target.push_str(&format!("&limit={}", l));
                        eff = effective(Some(l));
                    } else if let Some(l) = first_limit {
                        target.push_str(&format!("&limit={}", l));
                    }
                }
            }
        }
        Ok((got, pages))
    });
    let (got, pages) = match res {
        Err(f) if f.key == "ABORTED-TOKEN-TOO-LARGE" => {
            st.eval();
            st.count("scans_aborted_token_too_large");
            return Ok(());
        }
        r => r?,
    };
    st.eval();
    st.count("scans");
    st.count_n("requests", pages as u64);
    let l = eff_first as u64;
    let n = c.n as u64;
    if pages >= 3 {
        st.count("multi_page");
    }
    if n > l || (l > 0 && [0, 1, l - 1].contains(&(n % l))) || first_limit.map(|x| x > 10000).unwrap_or(false) {
        st.nontrivial(hash_of(&format!("{:?}", c)));
    }
    if got != expected {
        let first_diff = got.iter().zip(expected.iter()).position(|(a, b)| a != b).unwrap_or(got.len().min(expected.len()));
        fail!(
            if got.len() < expected.len() { "scan-misses-items" } else if got.len() > expected.len() { "scan-repeats-items" } else { "scan-wrong-order" },
            "{}: concatenated pages have {} items, collection has {}; first difference at index {} (got {:?}, expected {:?})",
            desc,
            got.len(),
            expected.len(),
            first_diff,
            got.get(first_diff),
            expected.get(first_diff)
        );
    }
    st.sample(|| json!({"scan": desc, "pages": pages, "items": got.len()}));
    Ok(())
}

pub fn run(ctx: &mut Ctx) {
    ctx.rule = "full scans of the collection 0..n through a live keyset-paginated endpoint built from PaginationParams / page_limit / ResultsPage::new: n in 0..300 densely plus 300..1200 and {9999,10000,10001,25000}; client limit absent, 1..40, n-2..n+2, {1,2,99,100,101,9999,10000,10001,25000,u32::MAX}; ascending/descending; optionally a different limit on later pages; token filler of varying size, fillers of 230-312 characters give tokens just below the framework's maximum of 512 and 7% are large enough to push the token over the framework's maximum (such scans may be aborted by the server with an error status, but must never be cut short by a non-empty page without a token). Oracle: concatenation of pages == collection in order, each page <= effective limit, token present iff page non-empty, at most ceil(n/l)+1 requests. non-trivial = n > limit, or n mod l in {0,1,l-1}, or limit above the server maximum; distinct by case".into();
    ctx.max_shrink_iters = 300;
    let srt = tokio::runtime::Builder::new_multi_thread().worker_threads(2).enable_all().build().unwrap();
    let rt = tokio::runtime::Builder::new_current_thread().enable_all().build().unwrap();
    let server = {
        let _g = srt.enter();
        start_server(pag_api(), PagCtx::default(), Default::default(), None).expect("server")
    };
    let addr = server.local_addr();
    let n = ctx.tier.pick(4000, 40000);
    ctx.phase("scans", n, scan_case(false), |c, st| check_scan(addr, &rt, c, st));
    ctx.require_frac("scans", "multi_page", "scans", 0.3);
    let n = ctx.tier.pick(150, 2500);
    ctx.phase("big_scans", n, scan_case(true), |c, st| check_scan(addr, &rt, c, st));
    let _ = srt.block_on(server.close());
}
