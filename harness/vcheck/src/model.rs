//! Reference models written from the property statements (not from the
//! code): semver precedence and version ranges (R2), route matching (R1),
//! request-path normalisation (R3).

use serde::{Deserialize, Serialize};
use std::cmp::Ordering;
use std::collections::{BTreeMap, BTreeSet};

// ---------------------------------------------------------------- R2 ----

/// A semantic version without build metadata; pre-release identifiers are
/// kept as strings.
#[derive(Clone, Debug, PartialEq, Eq, Hash, Serialize, Deserialize)]
pub struct MVer {
    pub major: u64,
    pub minor: u64,
    pub patch: u64,
    pub pre: Vec<String>,
}

impl MVer {
    pub fn new(major: u64, minor: u64, patch: u64, pre: &[&str]) -> MVer {
        MVer { major, minor, patch, pre: pre.iter().map(|s| s.to_string()).collect() }
    }
    pub fn parse(s: &str) -> MVer {
        let (core, pre) = match s.split_once('-') {
            Some((c, p)) => (c, p.split('.').map(|x| x.to_string()).collect()),
            None => (s, vec![]),
        };
        let n: Vec<u64> = core.split('.').map(|x| x.parse().unwrap()).collect();
        MVer { major: n[0], minor: n[1], patch: n[2], pre }
    }
    pub fn text(&self) -> String {
        let mut s = format!("{}.{}.{}", self.major, self.minor, self.patch);
        if !self.pre.is_empty() {
            s.push('-');
            s.push_str(&self.pre.join("."));
        }
        s
    }
    pub fn semver(&self) -> semver::Version {
        semver::Version::parse(&self.text()).expect("model version must parse")
    }
}

fn ident_is_numeric(s: &str) -> bool {
    !s.is_empty() && s.bytes().all(|b| b.is_ascii_digit())
}

/// semver.org §11 precedence, implemented directly from the specification.
pub fn ver_cmp(a: &MVer, b: &MVer) -> Ordering {
    let t = (a.major, a.minor, a.patch).cmp(&(b.major, b.minor, b.patch));
    if t != Ordering::Equal {
        return t;
    }
    match (a.pre.is_empty(), b.pre.is_empty()) {
        (true, true) => return Ordering::Equal,
        (true, false) => return Ordering::Greater, // release > pre-release
        (false, true) => return Ordering::Less,
        _ => {}
    }
    for (x, y) in a.pre.iter().zip(b.pre.iter()) {
        let o = match (ident_is_numeric(x), ident_is_numeric(y)) {
            (true, true) => {
                // compare numerically without overflow: by length then text
                let xs = x.trim_start_matches('0');
                let ys = y.trim_start_matches('0');
                xs.len().cmp(&ys.len()).then_with(|| xs.cmp(ys))
            }
            (true, false) => Ordering::Less, // numeric < alphanumeric
            (false, true) => Ordering::Greater,
            (false, false) => x.as_bytes().cmp(y.as_bytes()),
        };
        if o != Ordering::Equal {
            return o;
        }
    }
    a.pre.len().cmp(&b.pre.len())
}

pub fn ver_lt(a: &MVer, b: &MVer) -> bool {
    ver_cmp(a, b) == Ordering::Less
}
pub fn ver_le(a: &MVer, b: &MVer) -> bool {
    ver_cmp(a, b) != Ordering::Greater
}

#[derive(Clone, Debug, PartialEq, Eq, Hash, Serialize, Deserialize)]
pub enum MRange {
    All,
    From(MVer),
    Until(MVer),
    FromUntil(MVer, MVer),
}

impl MRange {
    /// membership as the statement defines it
    pub fn contains(&self, v: &MVer) -> bool {
        match self {
            MRange::All => true,
            MRange::From(a) => ver_le(a, v),
            MRange::Until(b) => ver_lt(v, b),
            MRange::FromUntil(a, b) => {
                if ver_cmp(a, b) == Ordering::Equal {
                    ver_cmp(v, a) == Ordering::Equal
                } else {
                    ver_le(a, v) && ver_lt(v, b)
                }
            }
        }
    }
    /// lower bound (inclusive) if any
    fn lower(&self) -> Option<&MVer> {
        match self {
            MRange::From(a) | MRange::FromUntil(a, _) => Some(a),
            _ => None,
        }
    }
    /// Two ranges conflict iff some version belongs to both.  Decided by
    /// interval reasoning: when both have a lower bound, a common member
    /// exists iff the greater lower bound is one; when only one has, iff its
    /// lower bound is one or (for the unbounded-below one) everything below
    /// fits: `Until(b)` vs `From(a)`: a common member exists iff a < b; two
    /// ranges without lower bound always share arbitrarily small versions.
    pub fn overlaps(&self, other: &MRange) -> bool {
        match (self.lower(), other.lower()) {
            (Some(a), Some(b)) => {
                let m = if ver_lt(a, b) { b } else { a };
                self.contains(m) && other.contains(m)
            }
            (Some(a), None) => other.contains(a) && self.contains(a),
            (None, Some(b)) => self.contains(b) && other.contains(b),
            (None, None) => true,
        }
    }
    pub fn to_dropshot(&self) -> dropshot::ApiEndpointVersions {
        use dropshot::ApiEndpointVersions as V;
        match self {
            MRange::All => V::all(),
            MRange::From(a) => V::from(a.semver()),
            MRange::Until(b) => V::until(b.semver()),
            MRange::FromUntil(a, b) => {
                V::from_until(a.semver(), b.semver()).expect("ordered pair")
            }
        }
    }
    pub fn text(&self) -> String {
        match self {
            MRange::All => "all".into(),
            MRange::From(a) => format!("from {}", a.text()),
            MRange::Until(b) => format!("until {}", b.text()),
            MRange::FromUntil(a, b) => format!("from {} until {}", a.text(), b.text()),
        }
    }
    pub fn kind(&self) -> &'static str {
        match self {
            MRange::All => "All",
            MRange::From(_) => "From",
            MRange::Until(_) => "Until",
            MRange::FromUntil(a, b) if a == b => "Point",
            MRange::FromUntil(..) => "FromUntil",
        }
    }
}

/// The ordered version pool used for complete enumeration.
pub fn pool() -> Vec<MVer> {
    ["0.9.0", "1.0.0-alpha", "1.0.0-alpha.1", "1.0.0-beta", "1.0.0", "1.0.1", "2.0.0"]
        .iter()
        .map(|s| MVer::parse(s))
        .collect()
}

/// below-all and above-all sentinels for the pool
pub fn pool_probes() -> Vec<MVer> {
    let mut v = vec![MVer::parse("0.0.1")];
    v.extend(pool());
    v.push(MVer::parse("3.0.0"));
    v
}

/// all ranges over the pool: All, From(a), Until(b), FromUntil(a,b) a<=b
pub fn all_ranges(pool: &[MVer]) -> Vec<MRange> {
    let mut out = vec![MRange::All];
    for a in pool {
        out.push(MRange::From(a.clone()));
    }
    for b in pool {
        out.push(MRange::Until(b.clone()));
    }
    for (i, a) in pool.iter().enumerate() {
        for b in &pool[i..] {
            out.push(MRange::FromUntil(a.clone(), b.clone()));
        }
    }
    out
}

// ---------------------------------------------------------------- R1 ----

#[derive(Clone, Debug, PartialEq, Eq, Hash, Serialize, Deserialize)]
pub enum Seg {
    Lit(String),
    Var(String),
    Wild(String),
}

#[derive(Clone, Debug, PartialEq, Eq, Hash, Serialize, Deserialize)]
pub struct MEndpoint {
    pub op: String,
    pub method: String,
    pub segs: Vec<Seg>,
    pub range: MRange,
    pub visible: bool,
    /// template ends with '/'
    pub trailing_slash: bool,
}

impl MEndpoint {
    pub fn template(&self) -> String {
        let mut s = String::new();
        for seg in &self.segs {
            s.push('/');
            match seg {
                Seg::Lit(l) => s.push_str(l),
                Seg::Var(n) => s.push_str(&format!("{{{}}}", n)),
                Seg::Wild(n) => s.push_str(&format!("{{{}:.*}}", n)),
            }
        }
        if self.segs.is_empty() || self.trailing_slash {
            s.push('/');
        }
        s
    }
    /// the path as the OpenAPI document spells it
    pub fn doc_path(&self) -> String {
        if self.segs.is_empty() {
            return "/".into();
        }
        let mut s = String::new();
        for seg in &self.segs {
            s.push('/');
            match seg {
                Seg::Lit(l) => s.push_str(l),
                Seg::Var(n) | Seg::Wild(n) => s.push_str(&format!("{{{}}}", n)),
            }
        }
        s
    }
    pub fn var_names(&self) -> Vec<(String, bool)> {
        self.segs
            .iter()
            .filter_map(|s| match s {
                Seg::Var(n) => Some((n.clone(), false)),
                Seg::Wild(n) => Some((n.clone(), true)),
                _ => None,
            })
            .collect()
    }
}

#[derive(Clone, Debug, PartialEq, Eq, Serialize, Deserialize)]
pub enum Bound {
    One(String),
    Many(Vec<String>),
}

/// Does endpoint `e` match (method, normalised segments, version)?  Returns
/// the variable bindings if so.
pub fn ep_matches(
    e: &MEndpoint,
    method: &str,
    segs: &[String],
    v: Option<&MVer>,
) -> Option<BTreeMap<String, Bound>> {
    if e.method != method {
        return None;
    }
    if let Some(v) = v {
        if !e.range.contains(v) {
            return None;
        }
    }
    path_matches(&e.segs, segs)
}

pub fn path_matches(tmpl: &[Seg], segs: &[String]) -> Option<BTreeMap<String, Bound>> {
    let mut b = BTreeMap::new();
    let mut i = 0;
    for t in tmpl {
        match t {
            Seg::Lit(l) => {
                if segs.get(i)? != l {
                    return None;
                }
                i += 1;
            }
            Seg::Var(n) => {
                b.insert(n.clone(), Bound::One(segs.get(i)?.clone()));
                i += 1;
            }
            Seg::Wild(n) => {
                b.insert(n.clone(), Bound::Many(segs[i..].to_vec()));
                i = segs.len();
            }
        }
    }
    if i == segs.len() {
        Some(b)
    } else {
        None
    }
}

pub fn dispatch<'a>(
    table: &'a [MEndpoint],
    method: &str,
    segs: &[String],
    v: Option<&MVer>,
) -> Vec<(&'a MEndpoint, BTreeMap<String, Bound>)> {
    table
        .iter()
        .filter_map(|e| ep_matches(e, method, segs, v).map(|b| (e, b)))
        .collect()
}

pub fn served_methods(table: &[MEndpoint], segs: &[String], v: Option<&MVer>) -> BTreeSet<String> {
    table
        .iter()
        .filter(|e| {
            v.map(|v| e.range.contains(v)).unwrap_or(true) && path_matches(&e.segs, segs).is_some()
        })
        .map(|e| e.method.clone())
        .collect()
}

// ---------------------------------------------------------------- R3 ----

#[derive(Clone, Debug, PartialEq, Eq)]
pub enum NormPath {
    /// decoded segments
    Ok(Vec<String>),
    /// must be refused with 400
    Reject(&'static str),
}

fn hexval(b: u8) -> Option<u8> {
    match b {
        b'0'..=b'9' => Some(b - b'0'),
        b'a'..=b'f' => Some(b - b'a' + 10),
        b'A'..=b'F' => Some(b - b'A' + 10),
        _ => None,
    }
}

/// percent-decode once; malformed escapes are kept literally
pub fn pct_decode_once(s: &[u8]) -> Vec<u8> {
    let mut out = Vec::with_capacity(s.len());
    let mut i = 0;
    while i < s.len() {
        if s[i] == b'%' && i + 2 < s.len() {
            if let (Some(h), Some(l)) = (hexval(s[i + 1]), hexval(s[i + 2])) {
                out.push(h * 16 + l);
                i += 3;
                continue;
            }
        }
        out.push(s[i]);
        i += 1;
    }
    out
}

/// does the raw path contain a '%' that is not followed by two hex digits?
pub fn has_malformed_escape(s: &[u8]) -> bool {
    let mut i = 0;
    while i < s.len() {
        if s[i] == b'%' {
            if i + 2 >= s.len() {
                return true;
            }
            if hexval(s[i + 1]).is_none() || hexval(s[i + 2]).is_none() {
                return true;
            }
            i += 3;
        } else {
            i += 1;
        }
    }
    false
}

/// R3: split on '/', drop empty pieces, decode each piece exactly once, then
/// refuse dot segments (in any spelling) and non-UTF-8 segments.
pub fn normalise_path(raw: &str) -> NormPath {
    let mut out = vec![];
    for piece in raw.as_bytes().split(|b| *b == b'/') {
        if piece.is_empty() {
            continue;
        }
        let dec = pct_decode_once(piece);
        if dec == b"." || dec == b".." {
            return NormPath::Reject("dot-segment");
        }
        match String::from_utf8(dec) {
            Ok(s) => out.push(s),
            Err(_) => return NormPath::Reject("non-utf8"),
        }
    }
    NormPath::Ok(out)
}

/// percent-encode a segment for use in a request path.  `mode` controls
/// how eager the encoder is: 0 = only what must be encoded, 1 = everything
/// outside unreserved, 2 = every byte.  `upper` selects hex case.
pub fn pct_encode_segment(seg: &[u8], mode: u8, upper: bool) -> String {
    let mut s = String::new();
    for &b in seg {
        let unreserved = b.is_ascii_alphanumeric() || matches!(b, b'-' | b'.' | b'_' | b'~');
        let pchar_extra = matches!(
            b,
            b'!' | b'$' | b'&' | b'\'' | b'(' | b')' | b'*' | b'+' | b',' | b';' | b'=' | b':' | b'@'
        );
        let raw_ok = match mode {
            0 => unreserved || pchar_extra,
            1 => unreserved,
            _ => false,
        };
        if raw_ok {
            s.push(b as char);
        } else if upper {
            s.push_str(&format!("%{:02X}", b));
        } else {
            s.push_str(&format!("%{:02x}", b));
        }
    }
    s
}

#[cfg(test)]
mod tests {
    use super::*;
    #[test]
    fn decode() {
        assert_eq!(pct_decode_once(b"%2e%2E"), b"..");
        assert_eq!(pct_decode_once(b"%2"), b"%2");
        assert_eq!(pct_decode_once(b"%zz%41"), b"%zzA");
        assert_eq!(pct_decode_once(b"%"), b"%");
        assert_eq!(pct_decode_once(b"a%25b"), b"a%b");
        assert!(has_malformed_escape(b"%"));
        assert!(has_malformed_escape(b"a%4"));
        assert!(has_malformed_escape(b"%4g"));
        assert!(!has_malformed_escape(b"%41%2f"));
    }
    #[test]
    fn precedence() {
        let p = pool();
        for i in 0..p.len() {
            for j in 0..p.len() {
                assert_eq!(ver_cmp(&p[i], &p[j]), i.cmp(&j), "{:?} {:?}", p[i], p[j]);
            }
        }
    }
}
