//! Constructive generator of route tables that registration accepts
//! (tree-shaped, so no two templates clash), and of probe requests
//! interpreted against a table.

use crate::core::*;
use crate::model::*;
use proptest::prelude::*;
use serde::{Deserialize, Serialize};

pub const METHODS: [&str; 7] = ["GET", "PUT", "POST", "DELETE", "OPTIONS", "HEAD", "PATCH"];

/// literal alphabet for templates (routes are not percent-decoded; requests
/// are, so "x y" is reachable as /x%20y)
pub const LITERALS: [&str; 8] = ["a", "b", "ab", "x y", "ü", "1", "not{a}var", "A"];

/// values for variable segments (never "", "." or ".." - those are C03's)
pub const SEGMENT_POOL: [&str; 18] = [
    "a", "b", "ab", "x y", "ü", "1", "%", "a/b", "+", "{id}", "...", ".a", "a.", "~", "A",
    "0123456789012345678901234567890123456789", "日本", "a%2Fb",
];

#[derive(Clone, Debug, Serialize, Deserialize)]
pub struct NodeSpec {
    /// endpoints on this node: (method index, disjoint range set recipe)
    pub methods: Vec<(u8, RangeSetSpec)>,
    pub edge: EdgeSpec,
}

#[derive(Clone, Debug, Serialize, Deserialize)]
pub enum EdgeSpec {
    None,
    Lits(Vec<(u8, NodeSpec)>),
    Var(Box<NodeSpec>),
    /// wildcard child: a leaf that only carries methods
    Wild(Vec<(u8, RangeSetSpec)>),
}

/// recipe for a set of pairwise disjoint ranges: sorted distinct cut points
/// (indices into the pool) partition the version line; `keep` selects
/// intervals; `points` turns a kept bounded interval into its one-version
/// left end.
#[derive(Clone, Debug, Serialize, Deserialize)]
pub struct RangeSetSpec {
    pub all: bool,
    pub cuts: Vec<u8>,
    pub keep: u16,
    pub points: u16,
}

impl RangeSetSpec {
    pub fn ranges(&self, pool: &[MVer]) -> Vec<MRange> {
        if self.all {
            return vec![MRange::All];
        }
        let mut cuts: Vec<usize> = self.cuts.iter().map(|c| (*c as usize) % pool.len()).collect();
        cuts.sort();
        cuts.dedup();
        if cuts.is_empty() {
            return vec![MRange::All];
        }
        let mut out = vec![];
        let k = cuts.len();
        // intervals: Until(c0), [c0,c1), ..., [c(k-2),c(k-1)), From(c(k-1))
        for i in 0..=k {
            if self.keep & (1 << i) == 0 {
                continue;
            }
            let r = if i == 0 {
                MRange::Until(pool[cuts[0]].clone())
            } else if i == k {
                MRange::From(pool[cuts[k - 1]].clone())
            } else if self.points & (1 << i) != 0 {
                MRange::FromUntil(pool[cuts[i - 1]].clone(), pool[cuts[i - 1]].clone())
            } else {
                MRange::FromUntil(pool[cuts[i - 1]].clone(), pool[cuts[i]].clone())
            };
            out.push(r);
        }
        if out.is_empty() {
            out.push(MRange::From(pool[cuts[k - 1]].clone()));
        }
        out
    }
}

pub fn rangeset_strategy() -> impl Strategy<Value = RangeSetSpec> {
    (
        prop::bool::weighted(0.3),
        proptest::collection::vec(any::<u8>(), 1..4),
        any::<u16>(),
        any::<u16>(),
    )
        .prop_map(|(all, cuts, keep, points)| RangeSetSpec { all, cuts, keep, points: points & 0x5555 })
}

fn methods_strategy(max: usize) -> impl Strategy<Value = Vec<(u8, RangeSetSpec)>> {
    proptest::collection::vec((0u8..7, rangeset_strategy()), 0..=max)
}

pub fn node_strategy(depth: u32) -> BoxedStrategy<NodeSpec> {
    let leaf = methods_strategy(3).prop_map(|methods| NodeSpec { methods, edge: EdgeSpec::None });
    if depth == 0 {
        return leaf.boxed();
    }
    let child = node_strategy(depth - 1);
    let edge = prop_oneof![
        2 => Just(EdgeSpec::None),
        4 => proptest::collection::vec((0u8..8, child.clone()), 1..4).prop_map(EdgeSpec::Lits),
        3 => child.prop_map(|c| EdgeSpec::Var(Box::new(c))),
        2 => methods_strategy(3).prop_map(EdgeSpec::Wild),
    ];
    (methods_strategy(3), edge).prop_map(|(methods, edge)| NodeSpec { methods, edge }).boxed()
}

#[derive(Clone, Debug, Serialize, Deserialize)]
pub struct TableSpec {
    pub root: NodeSpec,
    /// selects the variable-name family
    pub name_salt: u8,
    /// bit i: endpoint i's template gets a trailing slash
    pub trailing: u32,
    /// bit i: endpoint i is unpublished
    pub hidden: u32,
    /// if false every range is forced to All (unversioned server shape)
    pub versioned: bool,
}

pub fn table_strategy(depth: u32) -> impl Strategy<Value = TableSpec> {
    (node_strategy(depth), any::<u8>(), any::<u32>(), any::<u32>(), prop::bool::weighted(0.8)).prop_map(
        |(root, name_salt, trailing, hidden, versioned)| TableSpec { root, name_salt, trailing, hidden, versioned },
    )
}

const VAR_FAMILIES: [&str; 4] = ["v", "id", "x_", "name"];

impl TableSpec {
    /// flatten into model endpoints (at most `max` of them)
    pub fn endpoints(&self, max: usize) -> Vec<MEndpoint> {
        let pool = pool();
        let fam = VAR_FAMILIES[(self.name_salt as usize) % VAR_FAMILIES.len()];
        let mut out = vec![];
        fn add_methods(
            out: &mut Vec<MEndpoint>,
            ms: &[(u8, RangeSetSpec)],
            segs: &[Seg],
            pool: &[MVer],
            versioned: bool,
        ) {
            let mut seen = std::collections::BTreeSet::new();
            for (m, rs) in ms {
                let method = METHODS[(*m as usize) % METHODS.len()];
                if !seen.insert(method) {
                    continue;
                }
                let ranges = if versioned { rs.ranges(pool) } else { vec![MRange::All] };
                for r in ranges {
                    let n = out.len();
                    out.push(MEndpoint {
                        op: format!("op{}", n),
                        method: method.to_string(),
                        segs: segs.to_vec(),
                        range: r,
                        visible: true,
                        trailing_slash: false,
                    });
                }
            }
        }
        fn walk(
            out: &mut Vec<MEndpoint>,
            node: &NodeSpec,
            segs: &mut Vec<Seg>,
            depth: usize,
            fam: &str,
            pool: &[MVer],
            versioned: bool,
        ) {
            add_methods(out, &node.methods, segs, pool, versioned);
            match &node.edge {
                EdgeSpec::None => {}
                EdgeSpec::Lits(children) => {
                    let mut seen = std::collections::BTreeSet::new();
                    for (l, c) in children {
                        let lit = LITERALS[(*l as usize) % LITERALS.len()];
                        if !seen.insert(lit) {
                            continue;
                        }
                        segs.push(Seg::Lit(lit.to_string()));
                        walk(out, c, segs, depth + 1, fam, pool, versioned);
                        segs.pop();
                    }
                }
                EdgeSpec::Var(c) => {
                    segs.push(Seg::Var(format!("{}{}", fam, depth)));
                    walk(out, c, segs, depth + 1, fam, pool, versioned);
                    segs.pop();
                }
                EdgeSpec::Wild(ms) => {
                    // the wildcard also matches the empty remainder, i.e. the
                    // parent's own path: keep only wildcard endpoints that do
                    // not share (method, version) with an endpoint there
                    let parent: Vec<MEndpoint> = out.iter().filter(|e| e.segs[..] == segs[..]).cloned().collect();
                    segs.push(Seg::Wild(format!("w{}", depth)));
                    let mut tmp = vec![];
                    add_methods(&mut tmp, ms, segs, pool, versioned);
                    tmp.retain(|w| !parent.iter().any(|e| e.method == w.method && e.range.overlaps(&w.range)));
                    out.extend(tmp);
                    segs.pop();
                }
            }
        }
        let mut segs = vec![];
        walk(&mut out, &self.root, &mut segs, 0, fam, &pool, self.versioned);
        out.truncate(max);
        for (i, e) in out.iter_mut().enumerate() {
            e.op = format!("op{}", i);
            if !e.segs.is_empty() && self.trailing & (1 << (i % 32)) != 0 && self.trailing & (1 << ((i + 7) % 32)) != 0 {
                e.trailing_slash = true;
            }
            // wildcard endpoints are always unpublished (the macros enforce
            // this); others by the hidden mask
            if matches!(e.segs.last(), Some(Seg::Wild(_))) || self.hidden & (1 << (i % 32)) != 0 {
                e.visible = false;
            }
        }
        out
    }
}

/// Pairs (exact endpoint, wildcard endpoint) where the wildcard template is
/// the exact template plus a trailing wildcard: the request for the exact
/// path matches both (the wildcard consuming nothing).
pub fn wildcard_exact_pairs(table: &[MEndpoint]) -> Vec<(usize, usize)> {
    let mut out = vec![];
    for (i, e) in table.iter().enumerate() {
        for (j, w) in table.iter().enumerate() {
            if let Some(Seg::Wild(_)) = w.segs.last() {
                if w.segs.len() == e.segs.len() + 1 && w.segs[..e.segs.len()] == e.segs[..] {
                    out.push((i, j));
                }
            }
        }
    }
    out
}

// ---- probes -------------------------------------------------------------

#[derive(Clone, Debug, Serialize, Deserialize)]
pub enum Mutation {
    None,
    DropSeg(u16),
    AddSeg(u16, u16),
    ChangeSeg(u16, u16),
    OtherMethod(u16),
    UnknownMethod,
    OtherVersion(u16),
    OtherMethodAndVersion(u16, u16),
}

#[derive(Clone, Debug, Serialize, Deserialize)]
pub struct ProbeSpec {
    pub endpoint: u16,
    pub seg_choices: Vec<u16>,
    pub wild_len: u8,
    pub version: u16,
    pub mutation: Mutation,
    /// rendering: encoder mode per segment, slashes
    pub enc_mode: u8,
    pub upper_hex: bool,
    pub slashes: Vec<u8>,
    pub trailing_slash: bool,
}

pub fn probe_strategy(miss_bias: bool) -> impl Strategy<Value = ProbeSpec> {
    let (w_none, w_meth, w_ver) = if miss_bias { (2, 5, 3) } else { (6, 2, 2) };
    let mutation = prop_oneof![
        w_none => Just(Mutation::None),
        1 => any::<u16>().prop_map(Mutation::DropSeg),
        1 => any::<(u16, u16)>().prop_map(|(a, b)| Mutation::AddSeg(a, b)),
        1 => any::<(u16, u16)>().prop_map(|(a, b)| Mutation::ChangeSeg(a, b)),
        w_meth => any::<u16>().prop_map(Mutation::OtherMethod),
        1 => Just(Mutation::UnknownMethod),
        w_ver => any::<u16>().prop_map(Mutation::OtherVersion),
        w_ver => any::<(u16, u16)>().prop_map(|(a, b)| Mutation::OtherMethodAndVersion(a, b)),
    ];
    (
        any::<u16>(),
        proptest::collection::vec(any::<u16>(), 8),
        0u8..4,
        any::<u16>(),
        mutation,
        0u8..3,
        any::<bool>(),
        proptest::collection::vec(1u8..4, 9),
        any::<bool>(),
    )
        .prop_map(
            |(endpoint, seg_choices, wild_len, version, mutation, enc_mode, upper_hex, slashes, trailing_slash)| ProbeSpec {
                endpoint,
                seg_choices,
                wild_len,
                version,
                mutation,
                enc_mode,
                upper_hex,
                slashes,
                trailing_slash,
            },
        )
}

#[derive(Clone, Debug)]
pub struct Probe {
    pub method: String,
    pub segs: Vec<String>,
    pub version: MVer,
    pub raw_path: String,
    pub mutated: bool,
}

/// versions used for probing: pool plus the two sentinels
pub fn interpret_probe(table: &[MEndpoint], p: &ProbeSpec) -> Probe {
    let probes = pool_probes();
    let choice = |k: usize| -> String {
        let i = p.seg_choices[k % p.seg_choices.len()];
        pick(i, &SEGMENT_POOL).to_string()
    };
    let (mut method, mut segs, mut version) = if table.is_empty() {
        ("GET".to_string(), vec![choice(0)], probes[pick_idx(p.version, probes.len())].clone())
    } else {
        let e = pick(p.endpoint, table);
        let mut segs = vec![];
        for (k, s) in e.segs.iter().enumerate() {
            match s {
                Seg::Lit(l) => segs.push(l.clone()),
                Seg::Var(_) => segs.push(choice(k)),
                Seg::Wild(_) => {
                    for j in 0..p.wild_len {
                        segs.push(choice(k + j as usize));
                    }
                }
            }
        }
        // a member version of the endpoint's range when one of the probe
        // versions is; else any
        let members: Vec<&MVer> = probes.iter().filter(|v| e.range.contains(v)).collect();
        let v = if members.is_empty() {
            probes[pick_idx(p.version, probes.len())].clone()
        } else {
            (*pick(p.version, &members)).clone()
        };
        (e.method.clone(), segs, v)
    };
    let mut mutated = true;
    match &p.mutation {
        Mutation::None => mutated = false,
        Mutation::DropSeg(i) => {
            if !segs.is_empty() {
                let k = pick_idx(*i, segs.len());
                segs.remove(k);
            }
        }
        Mutation::AddSeg(i, c) => {
            let k = pick_idx(*i, segs.len() + 1);
            segs.insert(k, pick(*c, &SEGMENT_POOL).to_string());
        }
        Mutation::ChangeSeg(i, c) => {
            if !segs.is_empty() {
                let k = pick_idx(*i, segs.len());
                segs[k] = pick(*c, &SEGMENT_POOL).to_string();
            }
        }
        Mutation::OtherMethod(i) => {
            method = pick(*i, &METHODS).to_string();
        }
        Mutation::UnknownMethod => method = "BREW".to_string(),
        Mutation::OtherVersion(i) => version = probes[pick_idx(*i, probes.len())].clone(),
        Mutation::OtherMethodAndVersion(m, i) => {
            method = pick(*m, &METHODS).to_string();
            version = probes[pick_idx(*i, probes.len())].clone();
        }
    }
    // render
    let mut raw = String::new();
    for (k, s) in segs.iter().enumerate() {
        let n = p.slashes[k % p.slashes.len()] as usize;
        for _ in 0..n {
            raw.push('/');
        }
        raw.push_str(&pct_encode_segment(s.as_bytes(), p.enc_mode, p.upper_hex));
    }
    if segs.is_empty() || p.trailing_slash {
        raw.push('/');
    }
    Probe { method, segs, version, raw_path: raw, mutated }
}
