pub mod core;
pub mod model;
pub mod http1;
pub mod dynapi;
pub mod c05;
pub mod c13;
