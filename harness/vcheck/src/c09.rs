//! C09 — handlers receive exactly what the client sent.

use crate::core::*;
use crate::dynapi::start_server;
use crate::echoapi::*;
use crate::encoders::*;
use crate::http1;
use crate::{ensure, fail};
use proptest::prelude::*;
use serde::{Deserialize, Serialize};
use serde_json::{json, Map, Value};
use std::time::Duration;

// ---- value specs (client side; share no types with the server) ----------

#[derive(Clone, Debug, Serialize, Deserialize)]
pub struct PathSpec {
    pub s: String,
    pub n: u32,
    pub id: [u8; 16],
    pub color: u8,
    pub neg: i64,
    pub flag: bool,
}

#[derive(Clone, Debug, Serialize, Deserialize)]
pub struct QuerySpec {
    pub s: String,
    pub u8v: u8,
    pub i8v: i8,
    pub i64v: i64,
    pub u64v: u64,
    pub b: bool,
    pub ch: char,
    pub f_bits: u64,
    pub opt: Option<String>,
    pub optn: Option<u16>,
    pub color: Option<u8>,
    pub d: Option<u16>,
}

#[derive(Clone, Debug, Serialize, Deserialize)]
pub struct InnerSpec {
    pub name: String,
    pub depth: u8,
    pub child: Option<Box<InnerSpec>>,
}

#[derive(Clone, Debug, Serialize, Deserialize)]
pub enum TaggedSpec {
    Text(String),
    Pair(i32, i32),
    Nothing,
}

#[derive(Clone, Debug, Serialize, Deserialize)]
pub struct JsonSpec {
    pub text: String,
    pub n64: u64,
    pub i: i64,
    pub small: i8,
    /// f = mant * 2^-k (exactly representable, exactly parsed)
    pub f_mant: i32,
    pub f_k: u8,
    pub flag: bool,
    pub list: Vec<String>,
    pub numbers: Vec<i32>,
    pub nested: InnerSpec,
    pub opt: Option<String>,
    /// when opt is None: send `null` (true) or leave the key out (false)
    pub opt_null: bool,
    pub map: Vec<(String, i32)>,
    pub e: u8,
    pub tagged: TaggedSpec,
    pub dflt: Option<u32>,
}

#[derive(Clone, Debug, Serialize, Deserialize)]
pub struct FormSpec {
    pub a: String,
    pub b: i32,
    pub c: bool,
    pub o: Option<String>,
    pub e: u8,
    pub big: u64,
}

#[derive(Clone, Debug, Serialize, Deserialize)]
pub struct Framing {
    pub chunked: bool,
    pub chunk_sizes: Vec<u16>,
    pub ext: bool,
    pub trailer: bool,
    /// TCP write split points (fractions of the request length, per mille)
    pub cuts: Vec<u16>,
    /// content-type spelling variant
    pub ct_variant: u8,
}

#[derive(Clone, Debug, Serialize, Deserialize)]
pub enum EchoReq {
    Path(PathSpec),
    Wild(Vec<String>),
    Query(QuerySpec),
    Json(JsonSpec, Framing),
    All(PathSpec, QuerySpec, JsonSpec, Framing),
    Form(FormSpec, Framing),
    Multipart(Vec<MPart>, u8, Framing),
    Raw(Vec<u8>, Framing),
    Stream(Vec<u8>, Framing),
    /// first page of a paginated endpoint: scan parameters + optional limit
    Page(QuerySpec, Option<u32>),
    /// wildcard remainder of enum values
    ColorWild(Vec<u8>),
    /// wildcard remainder of UUIDs
    UuidWild(Vec<[u8; 16]>),
    /// the flat form type sent as JSON to an endpoint declaring JSON
    FlatJson(FormSpec, Framing),
}

impl EchoReq {
    pub fn kind(&self) -> &'static str {
        match self {
            EchoReq::Path(_) => "path",
            EchoReq::Wild(_) => "wild",
            EchoReq::Query(_) => "query",
            EchoReq::Json(..) => "json",
            EchoReq::All(..) => "all",
            EchoReq::Form(..) => "form",
            EchoReq::Multipart(..) => "multipart",
            EchoReq::Raw(..) => "raw",
            EchoReq::Stream(..) => "stream",
            EchoReq::Page(..) => "page",
            EchoReq::ColorWild(..) => "cwild",
            EchoReq::UuidWild(..) => "uwild",
            EchoReq::FlatJson(..) => "flatjson",
        }
    }
}

// ---- strategies -----------------------------------------------------------

pub fn any_string() -> impl Strategy<Value = String> {
    prop_oneof![
        3 => "[a-zA-Z0-9]{0,12}",
        3 => "\\PC{0,16}",
        2 => "[ -~]{0,24}",
        1 => "[%+&=?#/;:@ \"'<>\\\\{}|^`\\[\\]]{1,10}",
        1 => "[\\x00-\\x1f\\x7f]{1,6}",
        1 => Just(String::new()),
        1 => Just("日本語 ünïcödé 🦀 \u{10FFFF} \u{0}".to_string()),
        1 => "[a-z]{200,400}",
        1 => Just("%41%2f%2F%00".to_string()),
        1 => Just("a+b c&d=e".to_string()),
    ]
}

/// a path segment value: non-empty and not a dot segment
fn seg_string() -> impl Strategy<Value = String> {
    any_string().prop_map(|s| if s.is_empty() || s == "." || s == ".." { format!("x{}", s) } else { s })
}

fn ext<T: Arbitrary + Copy + 'static>(extremes: Vec<T>) -> impl Strategy<Value = T> {
    prop_oneof![3 => any::<T>(), 1 => prop::sample::select(extremes)]
}

fn path_spec() -> impl Strategy<Value = PathSpec> {
    (
        seg_string(),
        ext(vec![0u32, 1, u32::MAX]),
        any::<[u8; 16]>(),
        0u8..3,
        ext(vec![0i64, -1, i64::MIN, i64::MAX]),
        any::<bool>(),
    )
        .prop_map(|(s, n, id, color, neg, flag)| PathSpec { s, n, id, color, neg, flag })
}

fn finite_f64_bits() -> impl Strategy<Value = u64> {
    prop_oneof![
        any::<f64>().prop_filter("finite", |f| f.is_finite()).prop_map(|f| f.to_bits()),
        prop::sample::select(vec![0.0f64, -0.0, 1.0, -1.5, f64::MAX, f64::MIN, f64::MIN_POSITIVE, 5e-324, 0.1, 1e300]).prop_map(|f| f.to_bits()),
    ]
}

fn query_spec() -> impl Strategy<Value = QuerySpec> {
    (
        (any_string(), ext(vec![0u8, 255]), ext(vec![i8::MIN, i8::MAX, 0]), ext(vec![i64::MIN, i64::MAX, 0, -1]), ext(vec![0u64, u64::MAX])),
        (
            any::<bool>(),
            prop_oneof![any::<char>(), prop::sample::select(vec!['a', ' ', '+', '%', '&', '=', '\u{0}', 'ü', '🦀', '\u{10FFFF}'])],
            finite_f64_bits(),
            proptest::option::of(any_string()),
            proptest::option::of(ext(vec![0u16, u16::MAX])),
            proptest::option::of(0u8..3),
            proptest::option::of(any::<u16>()),
        ),
    )
        .prop_map(|((s, u8v, i8v, i64v, u64v), (b, ch, f_bits, opt, optn, color, d))| QuerySpec {
            s,
            u8v,
            i8v,
            i64v,
            u64v,
            b,
            ch,
            f_bits,
            opt,
            optn,
            color,
            d,
        })
}

fn inner_spec() -> impl Strategy<Value = InnerSpec> {
    let leaf = (any_string(), any::<u8>()).prop_map(|(name, depth)| InnerSpec { name, depth, child: None });
    leaf.prop_recursive(3, 4, 1, |inner| {
        (any_string(), any::<u8>(), proptest::option::of(inner)).prop_map(|(name, depth, child)| InnerSpec { name, depth, child: child.map(Box::new) })
    })
}

fn json_spec() -> impl Strategy<Value = JsonSpec> {
    (
        (any_string(), ext(vec![0u64, u64::MAX, 1 << 53]), ext(vec![i64::MIN, i64::MAX, -1]), ext(vec![i8::MIN, i8::MAX]), -(1i32 << 30)..(1i32 << 30), 0u8..9, any::<bool>()),
        (
            proptest::collection::vec(any_string(), 0..4),
            proptest::collection::vec(ext(vec![i32::MIN, i32::MAX, 0]), 0..5),
            inner_spec(),
            proptest::option::of(any_string()),
            any::<bool>(),
            proptest::collection::vec((any_string(), any::<i32>()), 0..4),
            0u8..3,
            prop_oneof![
                any_string().prop_map(TaggedSpec::Text),
                any::<(i32, i32)>().prop_map(|(a, b)| TaggedSpec::Pair(a, b)),
                Just(TaggedSpec::Nothing)
            ],
            proptest::option::of(any::<u32>()),
        ),
    )
        .prop_map(|((text, n64, i, small, f_mant, f_k, flag), (list, numbers, nested, opt, opt_null, map, e, tagged, dflt))| JsonSpec {
            text,
            n64,
            i,
            small,
            f_mant,
            f_k,
            flag,
            list,
            numbers,
            nested,
            opt,
            opt_null,
            map,
            e,
            tagged,
            dflt,
        })
}

fn form_spec() -> impl Strategy<Value = FormSpec> {
    (any_string(), ext(vec![i32::MIN, i32::MAX, 0]), any::<bool>(), proptest::option::of(any_string()), 0u8..3, ext(vec![0u64, u64::MAX]))
        .prop_map(|(a, b, c, o, e, big)| FormSpec { a, b, c, o, e, big })
}

pub fn framing() -> impl Strategy<Value = Framing> {
    (
        any::<bool>(),
        proptest::collection::vec(prop_oneof![1u16..8, 1u16..2000], 0..4),
        any::<bool>(),
        any::<bool>(),
        proptest::collection::vec(0u16..1000, 0..4),
        0u8..6,
    )
        .prop_map(|(chunked, chunk_sizes, ext, trailer, cuts, ct_variant)| Framing { chunked, chunk_sizes, ext, trailer, cuts, ct_variant })
}

pub fn body_bytes(max: usize) -> impl Strategy<Value = Vec<u8>> {
    prop_oneof![
        3 => proptest::collection::vec(any::<u8>(), 0..64),
        2 => proptest::collection::vec(any::<u8>(), 0..max),
        1 => Just(vec![]),
        1 => Just(b"\r\n\r\n0\r\n\r\nGET / HTTP/1.1\r\n\r\n".to_vec()),
        1 => (1usize..max).prop_map(|n| vec![0u8; n]),
    ]
}

fn mpart() -> impl Strategy<Value = MPart> {
    (
        "[a-zA-Z0-9_.-]{1,12}",
        proptest::option::of("[a-zA-Z0-9_. -]{1,12}"),
        proptest::option::of(prop::sample::select(vec!["text/plain", "application/octet-stream", "application/json; charset=utf-8"])),
        prop_oneof![body_bytes(2000), Just(b"--VerifBoundary\r\n--\r\n".to_vec())],
    )
        .prop_map(|(name, filename, content_type, data)| MPart { name, filename, content_type: content_type.map(|s| s.to_string()), data })
}

pub fn echo_req() -> impl Strategy<Value = EchoReq> {
    prop_oneof![
        2 => path_spec().prop_map(EchoReq::Path),
        1 => proptest::collection::vec(seg_string(), 0..5).prop_map(EchoReq::Wild),
        2 => query_spec().prop_map(EchoReq::Query),
        3 => (json_spec(), framing()).prop_map(|(j, f)| EchoReq::Json(j, f)),
        1 => (path_spec(), query_spec(), json_spec(), framing()).prop_map(|(p, q, j, f)| EchoReq::All(p, q, j, f)),
        2 => (form_spec(), framing()).prop_map(|(j, f)| EchoReq::Form(j, f)),
        2 => (proptest::collection::vec(mpart(), 1..4), 0u8..6, framing()).prop_map(|(p, b, f)| EchoReq::Multipart(p, b, f)),
        1 => (body_bytes(20000), framing()).prop_map(|(b, f)| EchoReq::Raw(b, f)),
        1 => (body_bytes(60000), framing()).prop_map(|(b, f)| EchoReq::Stream(b, f)),
        1 => (query_spec(), proptest::option::of(1u32..5000)).prop_map(|(q, l)| EchoReq::Page(q, l)),
        1 => (form_spec(), framing()).prop_map(|(j, f)| EchoReq::FlatJson(j, f)),
        1 => prop_oneof![
            proptest::collection::vec(0u8..3, 0..5).prop_map(EchoReq::ColorWild),
            proptest::collection::vec(any::<[u8; 16]>(), 0..4).prop_map(EchoReq::UuidWild),
        ],
    ]
}

// ---- wire rendering and expected echo --------------------------------------

fn uuid_text(id: &[u8; 16], st: &mut Style) -> String {
    let h: String = id.iter().map(|b| format!("{:02x}", b)).collect();
    let s = format!("{}-{}-{}-{}-{}", &h[0..8], &h[8..12], &h[12..16], &h[16..20], &h[20..32]);
    if st.coin() {
        s.to_uppercase()
    } else {
        s
    }
}

fn uuid_canonical(id: &[u8; 16]) -> String {
    let h: String = id.iter().map(|b| format!("{:02x}", b)).collect();
    format!("{}-{}-{}-{}-{}", &h[0..8], &h[8..12], &h[12..16], &h[16..20], &h[20..32])
}

fn path_wire(prefix: &str, p: &PathSpec, st: &mut Style) -> String {
    format!(
        "{}/{}/{}/{}/{}/{}/{}",
        prefix,
        enc_path_segment(&p.s, st),
        p.n,
        uuid_text(&p.id, st),
        enc_path_segment(COLORS[p.color as usize % 3].1, st),
        p.neg,
        p.flag
    )
}

fn path_expected(p: &PathSpec) -> Value {
    json!({"s": p.s, "n": p.n, "id": uuid_canonical(&p.id), "color": COLORS[p.color as usize % 3].1, "neg": p.neg, "flag": p.flag})
}

fn query_pairs(tag: &str, q: &QuerySpec, st: &mut Style) -> Vec<(String, String)> {
    let mut v = vec![
        ("tag".to_string(), tag.to_string()),
        ("s".to_string(), q.s.clone()),
        ("u8v".to_string(), q.u8v.to_string()),
        ("i8v".to_string(), q.i8v.to_string()),
        ("i64v".to_string(), q.i64v.to_string()),
        ("u64v".to_string(), q.u64v.to_string()),
        ("b".to_string(), q.b.to_string()),
        ("ch".to_string(), q.ch.to_string()),
        ("f".to_string(), float_text(f64::from_bits(q.f_bits), st)),
    ];
    if let Some(o) = &q.opt {
        v.push(("opt".into(), o.clone()));
    }
    if let Some(o) = &q.optn {
        v.push(("optn".into(), o.to_string()));
    }
    if let Some(c) = &q.color {
        v.push(("color".into(), COLORS[*c as usize % 3].1.to_string()));
    }
    if let Some(d) = &q.d {
        v.push(("d".into(), d.to_string()));
    }
    v
}

fn query_expected(tag: &str, q: &QuerySpec) -> Value {
    json!({
        "tag": tag, "s": q.s, "u8v": q.u8v, "i8v": q.i8v, "i64v": q.i64v, "u64v": q.u64v, "b": q.b,
        "ch": q.ch.to_string(), "f": q.f_bits, "opt": q.opt, "optn": q.optn,
        "color": q.color.map(|c| COLORS[c as usize % 3].1), "d": q.d.unwrap_or(0),
    })
}

fn inner_wire(i: &InnerSpec, st: &mut Style) -> Value {
    let mut m = Map::new();
    m.insert("name".into(), json!(i.name));
    m.insert("depth".into(), json!(i.depth));
    match &i.child {
        Some(c) => {
            m.insert("child".into(), inner_wire(c, st));
        }
        None => {
            if st.coin() {
                m.insert("child".into(), Value::Null);
            }
        }
    }
    Value::Object(m)
}

fn inner_expected(i: &InnerSpec) -> Value {
    json!({"name": i.name, "depth": i.depth, "child": i.child.as_ref().map(|c| inner_expected(c))})
}

fn json_f(j: &JsonSpec) -> f64 {
    (j.f_mant as f64) / ((1u32 << (j.f_k % 9)) as f64)
}

fn json_wire(j: &JsonSpec, st: &mut Style) -> Value {
    let mut m = Map::new();
    m.insert("text".into(), json!(j.text));
    m.insert("n64".into(), json!(j.n64));
    m.insert("i".into(), json!(j.i));
    m.insert("small".into(), json!(j.small));
    m.insert("f".into(), json!({"$float": float_text(json_f(j), st)}));
    m.insert("flag".into(), json!(j.flag));
    m.insert("list".into(), json!(j.list));
    m.insert("numbers".into(), json!(j.numbers));
    m.insert("nested".into(), inner_wire(&j.nested, st));
    match &j.opt {
        Some(o) => {
            m.insert("opt".into(), json!(o));
        }
        None => {
            if j.opt_null {
                m.insert("opt".into(), Value::Null);
            }
        }
    }
    let mut map = Map::new();
    for (k, v) in &j.map {
        map.insert(k.clone(), json!(v));
    }
    m.insert("map".into(), Value::Object(map));
    m.insert("e".into(), json!(COLORS[j.e as usize % 3].1));
    m.insert(
        "tagged".into(),
        match &j.tagged {
            TaggedSpec::Text(t) => json!({"kind": "Text", "value": t}),
            TaggedSpec::Pair(a, b) => json!({"kind": "Pair", "value": {"left": a, "right": b}}),
            TaggedSpec::Nothing => json!({"kind": "Nothing"}),
        },
    );
    if let Some(d) = j.dflt {
        m.insert("dflt".into(), json!(d));
    }
    Value::Object(m)
}

fn json_expected(j: &JsonSpec) -> Value {
    let mut map = Map::new();
    for (k, v) in &j.map {
        map.insert(k.clone(), json!(v)); // later duplicates win, as in the wire object
    }
    json!({
        "text": j.text, "n64": j.n64, "i": j.i, "small": j.small, "f": json_f(j).to_bits(), "flag": j.flag,
        "list": j.list, "numbers": j.numbers, "nested": inner_expected(&j.nested), "opt": j.opt,
        "map": map, "e": COLORS[j.e as usize % 3].1,
        "tagged": match &j.tagged {
            TaggedSpec::Text(t) => json!({"kind": "Text", "value": t}),
            TaggedSpec::Pair(a, b) => json!({"kind": "Pair", "value": {"left": a, "right": b}}),
            TaggedSpec::Nothing => json!({"kind": "Nothing"}),
        },
        "dflt": j.dflt.unwrap_or(0),
    })
}

fn content_type_variant(base: &str, v: u8) -> Option<String> {
    match v % 6 {
        0 | 5 => Some(base.to_string()),
        1 => Some(base.to_uppercase()),
        2 => Some(format!("{}; charset=utf-8", base)),
        3 => Some(format!("{} ;charset=utf-8", base)),
        _ => {
            if base == "application/json" {
                None // JSON is the default when the header is absent
            } else {
                Some(format!("{};x=1", base))
            }
        }
    }
}

/// the same request in protocol-neutral form (for the HTTP/2 client)
#[derive(Clone, Debug, Default)]
pub struct Parts {
    pub ct: Option<String>,
    pub body: Option<Vec<u8>>,
    /// DATA frame sizes when the body is sent without a declared length
    pub frames: Option<Vec<usize>>,
    /// HTTP/2 only: put zero-length DATA frames (legal, RFC 9113 section 6.1) between the others
    pub empty_frames: bool,
}

pub struct Wire {
    pub parts: Parts,
    pub bytes: Vec<u8>,
    pub cuts: Vec<usize>,
    pub method: &'static str,
    pub target: String,
    pub expected: Value,
    pub op: &'static str,
}

/// values of the repeated request header `x-verif-multi` that go with a tag (0-3 field lines)
pub fn multi_values(tag: &str) -> Vec<String> {
    let h = fnv(tag.as_bytes());
    (0..(h % 4)).map(|i| format!("m{}-{:x}", i, splitmix64(h ^ i) & 0xffff)).collect()
}

pub fn finish_request(method: &'static str, target: String, ct: Option<String>, body: Option<Vec<u8>>, fr: Option<&Framing>, tag: &str) -> (Vec<u8>, Vec<usize>, Parts) {
    let parts = Parts {
        ct: ct.clone(),
        body: body.clone(),
        frames: fr.filter(|f| f.chunked).map(|f| f.chunk_sizes.iter().map(|s| *s as usize).collect()),
        empty_frames: fr.map(|f| f.chunked && f.ext).unwrap_or(false),
    };
    let mut headers = vec![("x-verif-tag".to_string(), tag.to_string())];
    for (i, v) in multi_values(tag).into_iter().enumerate() {
        // the same field name on several lines, in two spellings
        headers.push((if i % 2 == 0 { "x-verif-multi" } else { "X-Verif-Multi" }.to_string(), v));
    }
    if let Some(ct) = ct {
        headers.push(("content-type".to_string(), ct));
    }
    let bytes = match (&body, fr) {
        (Some(b), Some(f)) if f.chunked => {
            headers.push(("transfer-encoding".to_string(), "chunked".to_string()));
            let sizes: Vec<usize> = f.chunk_sizes.iter().map(|s| *s as usize).collect();
            let cb = http1::chunked_body(b, &sizes, f.ext, f.trailer);
            let mut r = http1::build_request(method, &target, &headers, None);
            r.extend_from_slice(&cb);
            r
        }
        (Some(b), _) => http1::build_request(method, &target, &headers, Some(b)),
        (None, _) => http1::build_request(method, &target, &headers, None),
    };
    let cuts = fr.map(|f| f.cuts.iter().map(|c| (*c as usize) * bytes.len() / 1000).collect()).unwrap_or_default();
    (bytes, cuts, parts)
}

pub fn render(req: &EchoReq, tag: &str, style_seed: u64) -> Wire {
    let mut st = Style(style_seed);
    let tagq = |st: &mut Style| format!("tag={}", enc_component(tag, st, false));
    match req {
        EchoReq::Path(p) => {
            let target = format!("{}?{}", path_wire("/e/path", p, &mut st), tagq(&mut st));
            let (bytes, cuts, hp) = finish_request("GET", target.clone(), None, None, None, tag);
            Wire { parts: hp, bytes, cuts, method: "GET", target, expected: json!({"path": path_expected(p), "query": {"tag": tag}, "body": null}), op: "ve_path" }
        }
        EchoReq::Wild(rest) => {
            let mut target = "/e/wild".to_string();
            for s in rest {
                for _ in 0..(1 + st.below(2)) {
                    target.push('/');
                }
                target.push_str(&enc_path_segment(s, &mut st));
            }
            if st.coin() {
                target.push('/');
            }
            target.push_str(&format!("?{}", tagq(&mut st)));
            let (bytes, cuts, hp) = finish_request("GET", target.clone(), None, None, None, tag);
            Wire { parts: hp, bytes, cuts, method: "GET", target, expected: json!({"path": {"rest": rest}, "query": {"tag": tag}, "body": null}), op: "ve_wild" }
        }
        EchoReq::Query(q) => {
            let pairs = query_pairs(tag, q, &mut st);
            let target = format!("/e/query?{}", enc_pairs(&pairs, &mut st));
            let (bytes, cuts, hp) = finish_request("GET", target.clone(), None, None, None, tag);
            Wire { parts: hp, bytes, cuts, method: "GET", target, expected: json!({"path": null, "query": query_expected(tag, q), "body": null}), op: "ve_query" }
        }
        EchoReq::Page(q, limit) => {
            let mut pairs = query_pairs(tag, q, &mut st);
            if let Some(l) = limit {
                pairs.push(("limit".into(), l.to_string()));
            }
            let target = format!("/e/page?{}", enc_pairs(&pairs, &mut st));
            let (bytes, cuts, hp) = finish_request("GET", target.clone(), None, None, None, tag);
            Wire { parts: hp, bytes, cuts, method: "GET", target, expected: json!({"path": {"limit": limit.unwrap_or(100)}, "query": query_expected(tag, q), "body": null}), op: "ve_page" }
        }
        EchoReq::ColorWild(cs) => {
            let mut target = "/e/cwild".to_string();
            for c in cs {
                target.push('/');
                target.push_str(&enc_path_segment(COLORS[*c as usize % 3].1, &mut st));
            }
            target.push_str(&format!("?{}", tagq(&mut st)));
            let (bytes, cuts, hp) = finish_request("GET", target.clone(), None, None, None, tag);
            let exp: Vec<&str> = cs.iter().map(|c| COLORS[*c as usize % 3].1).collect();
            Wire { parts: hp, bytes, cuts, method: "GET", target, expected: json!({"path": {"rest": exp}, "query": {"tag": tag}, "body": null}), op: "ve_cwild" }
        }
        EchoReq::UuidWild(ids) => {
            let mut target = "/e/uwild".to_string();
            for id in ids {
                target.push('/');
                target.push_str(&uuid_text(id, &mut st));
            }
            target.push_str(&format!("?{}", tagq(&mut st)));
            let (bytes, cuts, hp) = finish_request("GET", target.clone(), None, None, None, tag);
            let exp: Vec<String> = ids.iter().map(uuid_canonical).collect();
            Wire { parts: hp, bytes, cuts, method: "GET", target, expected: json!({"path": {"rest": exp}, "query": {"tag": tag}, "body": null}), op: "ve_uwild" }
        }
        EchoReq::Json(j, f) => {
            let target = format!("/e/json?{}", tagq(&mut st));
            let body = json_text(&json_wire(j, &mut st), &mut st).into_bytes();
            let (bytes, cuts, hp) = finish_request("POST", target.clone(), content_type_variant("application/json", f.ct_variant), Some(body), Some(f), tag);
            Wire { parts: hp, bytes, cuts, method: "POST", target, expected: json!({"path": null, "query": {"tag": tag}, "body": json_expected(j)}), op: "ve_json" }
        }
        EchoReq::All(p, q, j, f) => {
            let pairs = query_pairs(tag, q, &mut st);
            let target = format!("{}?{}", path_wire("/e/all", p, &mut st), enc_pairs(&pairs, &mut st));
            let body = json_text(&json_wire(j, &mut st), &mut st).into_bytes();
            let (bytes, cuts, hp) = finish_request("PUT", target.clone(), content_type_variant("application/json", f.ct_variant), Some(body), Some(f), tag);
            Wire { parts: hp, bytes,
                cuts,
                method: "PUT",
                target,
                expected: json!({"path": {"ps": p.s, "pn": p.n, "pid": uuid_canonical(&p.id), "pcolor": COLORS[p.color as usize % 3].1, "pneg": p.neg, "pflag": p.flag},
                                 "query": query_expected(tag, q), "body": json_expected(j)}),
                op: "ve_all",
            }
        }
        EchoReq::Form(fs, f) => {
            let target = format!("/e/form?{}", tagq(&mut st));
            let mut pairs = vec![
                ("a".to_string(), fs.a.clone()),
                ("b".to_string(), fs.b.to_string()),
                ("c".to_string(), fs.c.to_string()),
                ("e".to_string(), COLORS[fs.e as usize % 3].1.to_string()),
                ("big".to_string(), fs.big.to_string()),
            ];
            if let Some(o) = &fs.o {
                pairs.push(("o".into(), o.clone()));
            }
            let body = enc_pairs(&pairs, &mut st).into_bytes();
            let ct = content_type_variant("application/x-www-form-urlencoded", f.ct_variant);
            let (bytes, cuts, hp) = finish_request("POST", target.clone(), ct, Some(body), Some(f), tag);
            Wire { parts: hp, bytes,
                cuts,
                method: "POST",
                target,
                expected: json!({"path": null, "query": {"tag": tag}, "body": {"a": fs.a, "b": fs.b, "c": fs.c, "o": fs.o, "e": COLORS[fs.e as usize % 3].1, "big": fs.big}}),
                op: "ve_form",
            }
        }
        EchoReq::FlatJson(fs, f) => {
            let target = format!("/e/flatjson?{}", tagq(&mut st));
            let mut m = Map::new();
            m.insert("a".into(), json!(fs.a));
            m.insert("b".into(), json!(fs.b));
            m.insert("c".into(), json!(fs.c));
            m.insert("e".into(), json!(COLORS[fs.e as usize % 3].1));
            m.insert("big".into(), json!(fs.big));
            if let Some(o) = &fs.o {
                m.insert("o".into(), json!(o));
            }
            let body = json_text(&Value::Object(m), &mut st).into_bytes();
            let (bytes, cuts, hp) = finish_request("POST", target.clone(), content_type_variant("application/json", f.ct_variant), Some(body), Some(f), tag);
            Wire {
                parts: hp,
                bytes,
                cuts,
                method: "POST",
                target,
                expected: json!({"path": null, "query": {"tag": tag}, "body": {"a": fs.a, "b": fs.b, "c": fs.c, "o": fs.o, "e": COLORS[fs.e as usize % 3].1, "big": fs.big}}),
                op: "ve_flatjson",
            }
        }
        EchoReq::Multipart(parts, bstyle, f) => {
            let target = format!("/e/multipart?{}", tagq(&mut st));
            let (ct, body) = multipart(parts, style_seed, &mut st, *bstyle);
            let (bytes, cuts, hp) = finish_request("POST", target.clone(), Some(ct), Some(body), Some(f), tag);
            let exp: Vec<Value> = parts
                .iter()
                .map(|p| json!({"name": p.name, "filename": p.filename, "content_type": p.content_type, "data": bytes_echo(&p.data)}))
                .collect();
            Wire { parts: hp, bytes, cuts, method: "POST", target, expected: json!({"path": null, "query": {"tag": tag}, "body": exp}), op: "ve_multipart" }
        }
        EchoReq::Raw(b, f) => {
            let target = format!("/e/raw?{}", tagq(&mut st));
            let ct = if st.coin() { Some("application/octet-stream".to_string()) } else { None };
            let (bytes, cuts, hp) = finish_request("PUT", target.clone(), ct, Some(b.clone()), Some(f), tag);
            Wire { parts: hp, bytes, cuts, method: "PUT", target, expected: json!({"path": null, "query": {"tag": tag}, "body": bytes_echo(b)}), op: "ve_raw" }
        }
        EchoReq::Stream(b, f) => {
            let target = format!("/e/stream?{}", tagq(&mut st));
            let (bytes, cuts, hp) = finish_request("PUT", target.clone(), Some("application/octet-stream".into()), Some(b.clone()), Some(f), tag);
            Wire { parts: hp, bytes, cuts, method: "PUT", target, expected: json!({"path": null, "query": {"tag": tag}, "body": bytes_echo(b)}), op: "ve_stream" }
        }
    }
}

/// compare an echo response with the expectation
pub fn judge(w: &Wire, tag: &str, local: std::net::SocketAddr, resp: &http1::RawResp) -> Result<(), Failure> {
    let kind = w.op;
    ensure!(resp.status == 200, format!("valid-request-refused:{}", kind), "{} {}: expected 200, got {} {}", w.method, truncate(&w.target, 300), resp.status, truncate(&resp.body_text(), 300));
    let j = resp.json().ok_or_else(|| Failure::new("echo-not-json", truncate(&resp.body_text(), 300)))?;
    for part in ["path", "query", "body"] {
        let mut got = j[part].clone();
        if part == "body" {
            if let Some(o) = got.as_object_mut() {
                o.remove("chunks");
            }
        }
        ensure!(
            got == w.expected[part],
            format!("value-differs:{}:{}", kind, part),
            "{} {}: handler received {} = {} but the client sent {}",
            w.method,
            truncate(&w.target, 300),
            part,
            truncate(&got.to_string(), 600),
            truncate(&w.expected[part].to_string(), 600)
        );
    }
    let c = &j["ctx"];
    ensure!(c["op"] == json!(w.op), "ctx-op", "operation {} != {}", c["op"], w.op);
    ensure!(c["method"] == json!(w.method), "ctx-method", "method {} != {}", c["method"], w.method);
    let uri_ok = c["uri"] == json!(w.target) || c["uri"].as_str().map(|u| u.starts_with("http://") && u.ends_with(w.target.as_str()) && u.len() > w.target.len() && !u[7..u.len() - w.target.len()].contains('/')).unwrap_or(false);
    ensure!(uri_ok, "ctx-uri", "uri {} != {}", c["uri"], w.target);
    ensure!(c["hdr_tag"] == json!(tag), "ctx-header", "header tag {} != {} (another request's data?)", c["hdr_tag"], tag);
    ensure!(
        c["hdr_multi"] == json!(multi_values(tag)),
        "ctx-repeated-header",
        "the request carried x-verif-multi on {} field lines with values {:?}; the request context shows {}",
        multi_values(tag).len(),
        multi_values(tag),
        c["hdr_multi"]
    );
    ensure!(c["remote_addr"] == json!(local.to_string()), "ctx-remote-addr", "remote_addr {} != client socket {}", c["remote_addr"], local);
    ensure!(
        resp.header("x-request-id").as_deref() == c["request_id"].as_str(),
        "ctx-request-id",
        "x-request-id {:?} != id seen by handler {}",
        resp.header("x-request-id"),
        c["request_id"]
    );
    Ok(())
}

#[derive(Clone, Debug, Serialize, Deserialize)]
pub struct ClientScript {
    pub reqs: Vec<EchoReq>,
    pub pipelined: bool,
    pub style: u64,
    pub pause_us: u16,
}

#[derive(Clone, Debug, Serialize, Deserialize)]
pub struct Batch {
    pub clients: Vec<ClientScript>,
}

fn needs_encoding(r: &EchoReq) -> bool {
    let odd = |s: &str| s.is_empty() || s.bytes().any(|b| !b.is_ascii_alphanumeric());
    match r {
        EchoReq::Path(p) => odd(&p.s) || p.n == u32::MAX || p.neg == i64::MIN,
        EchoReq::Wild(v) => v.is_empty() || v.iter().any(|s| odd(s)),
        EchoReq::Query(q) => odd(&q.s) || !q.ch.is_ascii_alphanumeric() || q.u64v == u64::MAX,
        EchoReq::Json(j, f) => odd(&j.text) || f.chunked,
        EchoReq::All(..) => true,
        EchoReq::Form(fs, f) | EchoReq::FlatJson(fs, f) => odd(&fs.a) || f.chunked,
        EchoReq::Multipart(_, b, _) => b % 6 != 0,
        EchoReq::Raw(_, f) | EchoReq::Stream(_, f) => f.chunked,
        EchoReq::Page(q, _) => odd(&q.s) || q.opt.as_deref() == Some(""),
        EchoReq::ColorWild(v) => v.len() != 1,
        EchoReq::UuidWild(v) => v.len() != 1,
    }
}

async fn run_client(addr: std::net::SocketAddr, ci: usize, cs: &ClientScript, nonce: u64) -> Result<Vec<(String, &'static str)>, Failure> {
    let mut done = vec![];
    let mut retries = 0u32;
    let mut conn = http1::Conn::connect(addr).await.map_err(|e| Failure::new("connect", e.to_string()))?;
    let wires: Vec<(String, Wire)> = cs
        .reqs
        .iter()
        .enumerate()
        .map(|(i, r)| {
            let tag = format!("t{}-{}-{:x}", ci, i, nonce);
            let w = render(r, &tag, splitmix64(cs.style ^ (i as u64)));
            (tag, w)
        })
        .collect();
    // Requests are sent in groups: all at once when pipelining, else one by
    // one.  A server may close a persistent connection after any response;
    // like a real client, a request that was sent on a *reused* connection
    // and got no response bytes at all is sent again on a fresh connection.
    let mut next = 0;
    let mut fresh = true;
    while next < wires.len() {
        let group_end = if cs.pipelined { wires.len() } else { next + 1 };
        let local = conn.local;
        let mut all = vec![];
        let mut cuts = vec![];
        for (_, w) in &wires[next..group_end] {
            cuts.extend(w.cuts.iter().map(|c| c + all.len()));
            all.extend_from_slice(&w.bytes);
        }
        let sent = conn.send_split(&all, &cuts, cs.pause_us as u64).await;
        let mut answered_in_group = 0;
        let mut retry = false;
        if sent.is_err() && fresh {
            // the server may answer and close before the whole pipeline is
            // written; whatever it answered is read below
        }
        for (tag, w) in &wires[next..group_end] {
            let outcome = conn.read_response(false, Duration::from_secs(20)).await;
            let resp = match outcome {
                http1::ReadOutcome::Resp(r) => r,
                http1::ReadOutcome::Closed(ref b) if b.is_empty() && !(fresh && answered_in_group == 0) => {
                    retry = true;
                    break;
                }
                other => match other.resp() {
                    Err(e) => fail!(format!("no-response:{}", w.op), "{}{} {}: {}", if cs.pipelined { "[pipelined] " } else { "" }, w.method, truncate(&w.target, 200), e),
                    Ok(_) => unreachable!(),
                },
            };
            if std::env::var("VERIF_DEBUG").is_ok() {
                eprintln!("DEBUG resp {} {:?} body={}", resp.status, resp.headers.iter().map(|(n, v)| format!("{}: {}", n, String::from_utf8_lossy(v))).collect::<Vec<_>>(), truncate(&resp.body_text(), 200));
            }
            judge(w, tag, local, &resp).map_err(|mut f| {
                if cs.pipelined {
                    f.msg = format!("[pipelined] {}", f.msg);
                }
                f
            })?;
            done.push((tag.clone(), w.op));
            answered_in_group += 1;
            if resp.header("connection").map(|c| c.eq_ignore_ascii_case("close")).unwrap_or(false) {
                retry = true;
                break;
            }
        }
        next += answered_in_group;
        fresh = false;
        if retry || (next < wires.len() && answered_in_group == 0) {
            conn = http1::Conn::connect(addr).await.map_err(|e| Failure::new("connect", e.to_string()))?;
            fresh = true;
            retries += 1;
        }
    }
    let _ = retries;
    Ok(done)
}

pub struct LiveEcho {
    pub addr: std::net::SocketAddr,
    pub server: dropshot::HttpServer<EchoCtx>,
}

pub fn start_echo(rt: &tokio::runtime::Runtime, max_bytes: usize, mode: dropshot::HandlerTaskMode) -> LiveEcho {
    let _g = rt.enter();
    let cfg = dropshot::ConfigDropshot {
        default_request_body_max_bytes: max_bytes,
        default_handler_task_mode: mode,
        ..Default::default()
    };
    let server = start_server(echo_api(), EchoCtx::default(), cfg, None).expect("echo server");
    LiveEcho { addr: server.local_addr(), server }
}

fn check_batch(live: &LiveEcho, rt: &tokio::runtime::Runtime, b: &Batch, st: &mut Stats) -> Result<(), Failure> {
    let nonce = splitmix64(b.clients.len() as u64 ^ b.clients.first().map(|c| c.style).unwrap_or(0));
    let addr = live.addr;
    let results: Vec<Result<Vec<(String, &'static str)>, Failure>> = rt.block_on(async {
        let mut handles = vec![];
        for (ci, cs) in b.clients.iter().cloned().enumerate() {
            handles.push(tokio::spawn(async move { run_client(addr, ci, &cs, nonce).await }));
        }
        let mut out = vec![];
        for h in handles {
            out.push(h.await.unwrap_or_else(|e| Err(Failure::new("client-task", e.to_string()))));
        }
        out
    });
    let concurrent = b.clients.len();
    for (cs, r) in b.clients.iter().zip(results) {
        let done = r?;
        for ((_, op), req) in done.iter().zip(cs.reqs.iter()) {
            st.eval();
            st.count(&format!("kind:{}", op));
            if cs.pipelined && cs.reqs.len() > 1 {
                st.count("pipelined");
            }
            if needs_encoding(req) || concurrent >= 4 {
                st.nontrivial(hash_of(&format!("{:?}", req)));
            }
        }
    }
    if concurrent >= 4 {
        st.count("batches_4plus_clients");
    }
    st.count("batches");
    st.sample(|| {
        let c = &b.clients[0];
        let w = render(&c.reqs[0], "t0-0-sample", splitmix64(c.style));
        json!({"clients": concurrent, "pipelined": c.pipelined, "first_request": truncate(&String::from_utf8_lossy(&w.bytes), 500), "expected": truncate(&w.expected.to_string(), 400)})
    });
    Ok(())
}

// ---- HTTP/2: multiplexed streams on one connection --------------------------

/// All requests of all scripts are sent as concurrent streams of ONE HTTP/2
/// connection; bodies go out with a declared length or as a sequence of DATA
/// frames of the generated sizes without one.
fn check_h2(addr: std::net::SocketAddr, rt: &tokio::runtime::Runtime, b: &Batch, st: &mut Stats) -> Result<(), Failure> {
    use http_body_util::BodyExt;
    use hyper_util::rt::{TokioExecutor, TokioIo};
    type B = http_body_util::combinators::UnsyncBoxBody<bytes::Bytes, std::convert::Infallible>;
    let nonce = splitmix64(b.clients.len() as u64 ^ b.clients.first().map(|c| c.style).unwrap_or(0) ^ 0x68_32);
    let mut wires = vec![];
    let mut lates: Vec<usize> = vec![];
    for (ci, cs) in b.clients.iter().enumerate() {
        for (i, r) in cs.reqs.iter().enumerate() {
            let tag = format!("h{}-{}-{:x}", ci, i, nonce);
            let w = render(r, &tag, splitmix64(cs.style ^ (i as u64)));
            // storm batches: the body leaves `late` scheduler yields after the request headers
            let late = if cs.pause_us > 0 { 1 + (splitmix64(cs.style ^ (i as u64) ^ 0x1a7e) % cs.pause_us as u64) as usize } else { 0 };
            wires.push((tag, w, r));
            lates.push(late);
        }
    }
    rt.block_on(async {
        let stream = tokio::net::TcpStream::connect(addr).await.map_err(|e| Failure::new("connect", e.to_string()))?;
        let local = stream.local_addr().map_err(|e| Failure::new("connect", e.to_string()))?;
        let (sender, conn) = hyper::client::conn::http2::handshake::<_, _, B>(TokioExecutor::new(), TokioIo::new(stream)).await.map_err(|e| Failure::new("h2-handshake", e.to_string()))?;
        let conn_task = tokio::spawn(async move {
            let _ = conn.await;
        });
        let mut futs = vec![];
        for (wi, (_, w, _)) in wires.iter().enumerate() {
            let late = lates[wi];
            let mut rb = hyper::Request::builder().method(w.method).uri(format!("http://{}{}", addr, w.target)).header("x-verif-tag", wires.iter().find(|x| std::ptr::eq(&x.1, w)).map(|x| x.0.clone()).unwrap());
            for v in multi_values(wires.iter().find(|x| std::ptr::eq(&x.1, w)).map(|x| x.0.as_str()).unwrap()) {
                rb = rb.header("x-verif-multi", v);
            }
            if let Some(ct) = &w.parts.ct {
                rb = rb.header("content-type", ct);
            }
            let body: B = match (&w.parts.body, &w.parts.frames) {
                (None, _) => http_body_util::Empty::new().boxed_unsync(),
                (Some(b), None) if late == 0 => http_body_util::Full::new(bytes::Bytes::from(b.clone())).boxed_unsync(),
                (Some(b), None) => LateFull { wait: late, data: Some(bytes::Bytes::from(b.clone())) }.boxed_unsync(),
                (Some(b), Some(sizes)) => {
                    let mut frames = vec![];
                    let mut pos = 0;
                    let mut i = 0;
                    while pos < b.len() {
                        let n = if sizes.is_empty() { b.len() } else { sizes[i % sizes.len()].max(1) }.min(b.len() - pos);
                        if w.parts.empty_frames && i % 2 == 0 {
                            frames.push(Ok(hyper::body::Frame::data(bytes::Bytes::new())));
                        }
                        frames.push(Ok::<_, std::convert::Infallible>(hyper::body::Frame::data(bytes::Bytes::copy_from_slice(&b[pos..pos + n]))));
                        pos += n;
                        i += 1;
                    }
                    http_body_util::StreamBody::new(futures::stream::iter(frames)).boxed_unsync()
                }
            };
            let req = rb.body(body).map_err(|e| Failure::new("h2-request-build", format!("{} {}: {}", w.method, truncate(&w.target, 200), e)))?;
            let mut s = sender.clone();
            futs.push(async move { tokio::time::timeout(Duration::from_secs(30), s.send_request(req)).await });
        }
        let results = futures::future::join_all(futs).await;
        for ((tag, w, r), res) in wires.iter().zip(results) {
            let resp = match res {
                Ok(Ok(r)) => r,
                Ok(Err(e)) => fail!(format!("no-response:{}", w.op), "[h2] {} {}: {}", w.method, truncate(&w.target, 200), e),
                Err(_) => fail!(format!("no-response:{}", w.op), "[h2] {} {}: timeout", w.method, truncate(&w.target, 200)),
            };
            let status = resp.status().as_u16();
            let headers: Vec<(String, Vec<u8>)> = resp.headers().iter().map(|(n, v)| (n.as_str().to_ascii_lowercase(), v.as_bytes().to_vec())).collect();
            let body = resp.into_body().collect().await.map(|b| b.to_bytes().to_vec()).map_err(|e| Failure::new(format!("no-response:{}", w.op), format!("[h2] body: {}", e)))?;
            let raw = http1::RawResp { status, reason: String::new(), headers, body, chunked: false };
            judge(w, tag, local, &raw).map_err(|mut f| {
                f.msg = format!("[h2, {} concurrent streams] {}", wires.len(), f.msg);
                f
            })?;
            st.eval();
            st.count(&format!("kind:{}", w.op));
            if w.parts.frames.is_some() && w.parts.body.as_ref().map(|b| !b.is_empty()).unwrap_or(false) {
                st.count("body_without_declared_length");
                if w.parts.empty_frames {
                    st.count("body_with_empty_data_frames");
                }
            }
            if needs_encoding(r) || wires.len() >= 4 {
                st.nontrivial(hash_of(&format!("h2{:?}", r)));
            }
        }
        st.count("connections");
        if wires.len() >= 4 {
            st.count("connections_4plus_streams");
        }
        st.sample(|| json!({"streams": wires.len(), "first": format!("{} {}", wires[0].1.method, truncate(&wires[0].1.target, 200))}));
        drop(sender);
        conn_task.abort();
        Ok(())
    })
}

/// A body of one DATA frame that also carries END_STREAM, produced `wait` polls after the
/// request headers have gone out.
struct LateFull {
    wait: usize,
    data: Option<bytes::Bytes>,
}
impl hyper::body::Body for LateFull {
    type Data = bytes::Bytes;
    type Error = std::convert::Infallible;
    fn poll_frame(mut self: std::pin::Pin<&mut Self>, cx: &mut std::task::Context<'_>) -> std::task::Poll<Option<Result<hyper::body::Frame<bytes::Bytes>, Self::Error>>> {
        if self.wait > 0 {
            self.wait -= 1;
            cx.waker().wake_by_ref();
            return std::task::Poll::Pending;
        }
        std::task::Poll::Ready(self.data.take().map(|d| Ok(hyper::body::Frame::data(d))))
    }
    fn is_end_stream(&self) -> bool {
        self.data.is_none()
    }
    fn size_hint(&self) -> hyper::body::SizeHint {
        hyper::body::SizeHint::with_exact(self.data.as_ref().map(|d| d.len() as u64).unwrap_or(0))
    }
}

/// CPU contention for the lifetime of the guard: `n` threads doing short bursts of work
/// separated by yields, so that the server's worker threads get descheduled at odd moments.
pub struct Contention(std::sync::Arc<std::sync::atomic::AtomicBool>, Vec<std::thread::JoinHandle<()>>);
impl Contention {
    pub fn start(n: usize) -> Contention {
        let stop = std::sync::Arc::new(std::sync::atomic::AtomicBool::new(false));
        let hs = (0..n)
            .map(|i| {
                let stop = stop.clone();
                std::thread::spawn(move || {
                    let mut x = i as u64 + 1;
                    while !stop.load(std::sync::atomic::Ordering::Relaxed) {
                        for _ in 0..20000 {
                            x = splitmix64(x);
                        }
                        std::hint::black_box(x);
                        std::thread::yield_now();
                    }
                })
            })
            .collect();
        Contention(stop, hs)
    }
}
impl Drop for Contention {
    fn drop(&mut self) {
        self.0.store(true, std::sync::atomic::Ordering::Relaxed);
        for h in self.1.drain(..) {
            let _ = h.join();
        }
    }
}

const STORM_LANES: usize = 10;

fn storm_strategy() -> impl Strategy<Value = Batch> {
    let small_part = ("[a-z]{1,6}", proptest::option::of("[a-z]{1,5}"), proptest::collection::vec(any::<u8>(), 0..40)).prop_map(|(name, filename, data)| MPart { name, filename, content_type: None, data });
    let req = (proptest::collection::vec(small_part, 1..3), 0u8..6, framing()).prop_map(|(p, b, f)| EchoReq::Multipart(p, b, f));
    (proptest::collection::vec(req, 12..40), any::<u64>()).prop_map(|(reqs, style)| Batch { clients: vec![ClientScript { reqs, pipelined: false, style, pause_us: std::env::var("VERIF_LATE").ok().and_then(|s| s.parse().ok()).unwrap_or(8) }] })
}

// ---- HTTPS: interleaved TLS handshakes ------------------------------------------

#[derive(Clone, Debug, Serialize, Deserialize)]
pub struct TlsScenario {
    pub clients: Vec<(EchoReq, u64)>,
    /// schedule: which client takes its next step (connect, handshake, request)
    pub order: Vec<u16>,
}

fn tls_scenario() -> impl Strategy<Value = TlsScenario> {
    let req = prop_oneof![path_spec().prop_map(EchoReq::Path), query_spec().prop_map(EchoReq::Query), (json_spec(), framing()).prop_map(|(j, f)| EchoReq::Json(j, f))];
    (proptest::collection::vec((req, any::<u64>()), 2..6), proptest::collection::vec(any::<u16>(), 18)).prop_map(|(clients, order)| TlsScenario { clients, order })
}

fn check_tls(addr: std::net::SocketAddr, rt: &tokio::runtime::Runtime, s: &TlsScenario, st: &mut Stats) -> Result<(), Failure> {
    use tokio::io::AsyncWriteExt;
    let connector = crate::tls::connector();
    rt.block_on(async {
        let k = s.clients.len();
        let mut step = vec![0u8; k];
        let mut tcp: Vec<Option<tokio::net::TcpStream>> = (0..k).map(|_| None).collect();
        let mut tls: Vec<Option<tokio_rustls::client::TlsStream<tokio::net::TcpStream>>> = (0..k).map(|_| None).collect();
        let mut local: Vec<Option<std::net::SocketAddr>> = vec![None; k];
        let mut schedule = vec![];
        let mut overlapped = false;
        for i in 0..3 * k {
            let cands: Vec<usize> = (0..k).filter(|c| step[*c] < 3).collect();
            let c = cands[pick_idx(s.order[i % s.order.len()], cands.len())];
            schedule.push((c, step[c]));
            match step[c] {
                0 => {
                    let t = tokio::net::TcpStream::connect(addr).await.map_err(|e| Failure::new("connect", e.to_string()))?;
                    t.set_nodelay(true).ok();
                    local[c] = t.local_addr().ok();
                    tcp[c] = Some(t);
                    // another connection accepted while this one's handshake is still outstanding?
                    if (0..k).any(|o| o != c && step[o] == 1) {
                        overlapped = true;
                    }
                }
                1 => {
                    let t = tcp[c].take().unwrap();
                    let stream = crate::tls::handshake(&connector, t).await.map_err(|e| Failure::new("tls-handshake", format!("client {}: {}", c, e)))?;
                    tls[c] = Some(stream);
                }
                _ => {
                    let tag = format!("tls{}-{:x}", c, s.clients[c].1 & 0xffff);
                    let w = render(&s.clients[c].0, &tag, s.clients[c].1);
                    let stream = tls[c].as_mut().unwrap();
                    stream.write_all(&w.bytes).await.map_err(|e| Failure::new("send", e.to_string()))?;
                    stream.flush().await.ok();
                    let mut buf = vec![];
                    let resp = match http1::read_response_from(stream, &mut buf, false, Duration::from_secs(20)).await.resp() {
                        Ok(r) => r,
                        Err(e) => fail!(format!("no-response:{}", w.op), "[https] {} {}: {}", w.method, truncate(&w.target, 200), e),
                    };
                    judge(&w, &tag, local[c].unwrap(), &resp).map_err(|mut f| {
                        f.msg = format!("[https, schedule {:?}] {}", schedule, f.msg);
                        f
                    })?;
                    st.eval();
                }
            }
            step[c] += 1;
        }
        st.count("tls_scenarios");
        if overlapped {
            st.count("overlapping_handshakes");
            st.nontrivial(hash_of(&format!("{:?}", s)));
        }
        st.sample(|| json!({"clients": k, "schedule": format!("{:?}", schedule)}));
        Ok(())
    })
}

pub fn batch_strategy(max_clients: usize) -> impl Strategy<Value = Batch> {
    let client = (proptest::collection::vec(echo_req(), 1..6), any::<bool>(), any::<u64>(), prop_oneof![Just(0u16), 0u16..300])
        .prop_map(|(reqs, pipelined, style, pause_us)| ClientScript { reqs, pipelined, style, pause_us });
    proptest::collection::vec(client, 1..=max_clients).prop_map(|clients| Batch { clients })
}

pub fn run(ctx: &mut Ctx) {
    ctx.rule = "batches of 1-16 (thorough 1-64) concurrent clients, each sending 1-5 requests (keep-alive or pipelined) to typed echo endpoints: path (string/u32/uuid/enum/i64/bool), wildcard (of strings, of enum values, of UUIDs), first-page parameters of a paginated endpoint (same field types as the query endpoint, plus limit), query (all scalar widths, char, f64, options, enum, default), JSON body (nested/recursive/tagged enum/map/options), urlencoded body, multipart, raw and streaming bodies; every value encoded with style choices (percent-encoding eagerness and hex case, '+' vs %20, key order, JSON escapes/whitespace, null vs absent, content-type spelling, content-length vs chunked with extensions/trailers, TCP split points). Oracle: echoed JSON of what the handler received == what was encoded; method/URI/header tag/all values of a header sent on 0-3 field lines/peer address/request id belong to this request. non-trivial = value needing encoding (reserved, non-ASCII, empty, extreme) or chunked framing or a batch with >=4 concurrent peers; distinct by request. Phase h2_multiplexed sends a whole batch as concurrent streams of one HTTP/2 connection (bodies with a declared length or as DATA frames of generated sizes, optionally interleaved with zero-length DATA frames); phase https_interleaved_handshakes interleaves the TCP connect / TLS handshake / request steps of 2-5 clients".into();
    ctx.assume("floats in JSON bodies are restricted to values serde_json's fast path parses exactly; non-finite floats are not sent");
    ctx.assume("thread interleavings on the server are not controlled; only schedule-independent equalities are asserted");
    let rt = tokio::runtime::Builder::new_multi_thread().worker_threads(4).enable_all().build().unwrap();
    let srt = tokio::runtime::Builder::new_multi_thread().worker_threads(4).enable_all().build().unwrap();
    let live = start_echo(&srt, 1 << 20, dropshot::HandlerTaskMode::Detached);
    ctx.max_shrink_iters = 400;
    let n = ctx.tier.pick(500, 6000);
    let maxc = ctx.tier.pick(16, 64);
    ctx.phase("echo_batches", n, batch_strategy(maxc), |b, st| check_batch(&live, &rt, b, st));
    ctx.require_frac("echo_batches", "batches_4plus_clients", "batches", 0.3);
    for k in ["ve_path", "ve_wild", "ve_query", "ve_json", "ve_all", "ve_form", "ve_multipart", "ve_raw", "ve_stream", "ve_page"] {
        ctx.require_frac("echo_batches", &format!("kind:{}", k), "batches", 0.2);
    }
    // a second server in cancel-on-disconnect mode: same property
    let live2 = start_echo(&srt, 1 << 20, dropshot::HandlerTaskMode::CancelOnDisconnect);
    let n = ctx.tier.pick(150, 2000);
    ctx.phase("echo_batches_cancel_mode", n, batch_strategy(maxc), |b, st| check_batch(&live2, &rt, b, st));
    // HTTP/2: every request of a batch as a concurrent stream of one connection
    let n = ctx.tier.pick(300, 4000);
    let addr1 = live.addr;
    ctx.phase("h2_multiplexed", n, batch_strategy(6), |b, st| check_h2(addr1, &rt, b, st));
    ctx.require_frac("h2_multiplexed", "connections_4plus_streams", "connections", 0.4);
    ctx.require_frac("h2_multiplexed", "body_without_declared_length", "connections", 0.3);
    ctx.require_frac("h2_multiplexed", "body_with_empty_data_frames", "connections", 0.15);
    // many small multipart bodies as concurrent streams, against several servers at once (each with its
    // own runtimes) so that worker threads are preempted at odd moments: the body of a stream then
    // sometimes arrives in full between two consecutive polls of its handler (D11)
    {
        let lanes: Vec<(LiveEcho, tokio::runtime::Runtime, tokio::runtime::Runtime)> = (0..STORM_LANES)
            .map(|_| {
                let srt = tokio::runtime::Builder::new_multi_thread().worker_threads(4).enable_all().build().unwrap();
                let crt = tokio::runtime::Builder::new_multi_thread().worker_threads(4).enable_all().build().unwrap();
                let live = start_echo(&srt, 1 << 20, dropshot::HandlerTaskMode::Detached);
                (live, srt, crt)
            })
            .collect();
        let _busy = Contention::start(std::env::var("VERIF_SPINNERS").ok().and_then(|s| s.parse().ok()).unwrap_or(0));
        let n = ctx.tier.pick(120, 2000);
        ctx.phase("h2_multipart_storm", n, storm_strategy(), |b, st| {
            let results: Vec<(Result<(), Failure>, Stats)> = std::thread::scope(|sc| {
                let hs: Vec<_> = lanes
                    .iter()
                    .map(|(live, _, crt)| {
                        let addr = live.addr;
                        sc.spawn(move || {
                            let mut tmp = Stats::default();
                            let r = check_h2(addr, crt, b, &mut tmp);
                            (r, tmp)
                        })
                    })
                    .collect();
                hs.into_iter().map(|h| h.join().unwrap_or_else(|_| (Err(Failure::new("client-task", "storm lane panicked")), Stats::default()))).collect()
            });
            let mut first_err = None;
            for (i, (r, tmp)) in results.into_iter().enumerate() {
                st.evals(tmp.evaluations);
                if i == 0 {
                    for h in tmp.nontrivial {
                        st.nontrivial(h);
                    }
                    for v in tmp.samples {
                        st.sample(|| v);
                    }
                }
                if let (Err(f), None) = (r, &first_err) {
                    first_err = Some(f);
                }
            }
            st.count("storm_batches");
            match first_err {
                Some(f) => Err(f),
                None => Ok(()),
            }
        });
        for (live, srt, _) in lanes {
            let _ = srt.block_on(live.server.close());
        }
    }
    // HTTPS: the accept path for TLS is separate code; interleave the handshakes of several clients
    let live3 = {
        let _g = srt.enter();
        let cfg = dropshot::ConfigDropshot { default_request_body_max_bytes: 1 << 20, ..Default::default() };
        crate::dynapi::start_server_tls(echo_api(), EchoCtx::default(), cfg).expect("https server")
    };
    let addr3 = live3.local_addr();
    let n = ctx.tier.pick(300, 5000);
    ctx.phase("https_interleaved_handshakes", n, tls_scenario(), |s, st| check_tls(addr3, &rt, s, st));
    ctx.require_frac("https_interleaved_handshakes", "overlapping_handshakes", "tls_scenarios", 0.3);
    let _ = srt.block_on(live.server.close());
    let _ = srt.block_on(live2.server.close());
    let _ = srt.block_on(live3.close());
}

// ---- helpers shared with C10 / C11 ----------------------------------------

pub fn echo_req_parts() -> impl Strategy<Value = (PathSpec, QuerySpec, JsonSpec, FormSpec)> {
    (path_spec(), query_spec(), json_spec(), form_spec())
}
pub fn json_wire_value(j: &JsonSpec, st: &mut Style) -> Value {
    json_wire(j, st)
}
pub fn json_f_value(j: &JsonSpec) -> f64 {
    json_f(j)
}
pub fn uuid_canonical_pub(id: &[u8; 16]) -> String {
    uuid_canonical(id)
}
pub fn query_pairs_pub(tag: &str, q: &QuerySpec, st: &mut Style) -> Vec<(String, String)> {
    query_pairs(tag, q, st)
}
