//! C13 — error responses follow one contract and never leak internal detail.

use crate::core::*;
use crate::dynapi::{discard_log, start_server};
use crate::http1;
use crate::{ensure, fail};
use dropshot::{
    ApiDescription, ApiEndpoint, ApiEndpointVersions, ClientErrorStatusCode, ErrorStatusCode, HttpError,
    HttpResponseOk, Query, RequestContext, TypedBody,
};
use http_body_util::BodyExt;
use proptest::prelude::*;
use schemars::JsonSchema;
use serde::{Deserialize, Serialize};
use serde_json::json;
use std::collections::HashSet;
use std::sync::Mutex;
use std::time::Duration;

// ---- exhaustive u16 sweep ---------------------------------------------

fn check_u16(n: &u16, st: &mut Stats) -> Result<(), Failure> {
    let n = *n;
    let is_err = (400..=599).contains(&n);
    let is_client = (400..=499).contains(&n);
    st.eval();
    if (395..=605).contains(&n) || n % 100 == 0 || n % 100 == 99 {
        st.nontrivial(n as u64);
    }
    if n % 9973 == 0 {
        st.sample(|| json!({"u16": n, "error": is_err, "client_error": is_client}));
    }
    let key = |what: &str| format!("status-range:{}", what);
    let e = ErrorStatusCode::from_u16(n);
    ensure!(e.is_ok() == is_err, key("ErrorStatusCode::from_u16"), "ErrorStatusCode::from_u16({}) ok={}", n, e.is_ok());
    let c = ClientErrorStatusCode::from_u16(n);
    ensure!(c.is_ok() == is_client, key("ClientErrorStatusCode::from_u16"), "ClientErrorStatusCode::from_u16({}) ok={}", n, c.is_ok());
    if let Ok(e) = &e {
        ensure!(e.as_u16() == n && e.as_status().as_u16() == n, key("as_u16"), "as_u16 of {} = {}", n, e.as_u16());
        ensure!(e.as_client_error().is_ok() == is_client, key("as_client_error"), "as_client_error({})", n);
        ensure!(e.is_client_error() == is_client && e.is_server_error() == !is_client, key("is_client_error"), "is_*_error({})", n);
        ensure!(e.as_str() == n.to_string(), key("as_str"), "as_str({}) = {}", n, e.as_str());
        let back: u16 = (*e).into();
        ensure!(back == n, key("into-u16"), "into u16 {} -> {}", n, back);
    }
    if let Ok(c) = &c {
        ensure!(c.as_u16() == n, key("client-as_u16"), "as_u16 of {} = {}", n, c.as_u16());
        let e2: ErrorStatusCode = (*c).into();
        ensure!(e2.as_u16() == n, key("client-into-error"), "client -> error {} -> {}", n, e2.as_u16());
    }
    // TryFrom<u16>
    ensure!(ErrorStatusCode::try_from(n).is_ok() == is_err, key("TryFrom<u16>"), "TryFrom<u16>({})", n);
    ensure!(ClientErrorStatusCode::try_from(n).is_ok() == is_client, key("client TryFrom<u16>"), "client TryFrom<u16>({})", n);
    // via http::StatusCode where representable
    if let Ok(s) = http::StatusCode::from_u16(n) {
        ensure!(ErrorStatusCode::from_status(s).is_ok() == is_err, key("from_status"), "from_status({})", n);
        ensure!(ClientErrorStatusCode::from_status(s).is_ok() == is_client, key("client from_status"), "client from_status({})", n);
        ensure!(ErrorStatusCode::try_from(s).is_ok() == is_err, key("TryFrom<StatusCode>"), "TryFrom<StatusCode>({})", n);
        ensure!(ClientErrorStatusCode::try_from(s).is_ok() == is_client, key("client TryFrom<StatusCode>"), "client TryFrom<StatusCode>({})", n);
    } else {
        ensure!(!is_err, "selftest-status", "http::StatusCode refuses {}", n);
    }
    // textual forms
    let text = n.to_string();
    ensure!(ErrorStatusCode::try_from(text.as_str()).is_ok() == is_err, key("TryFrom<&str>"), "TryFrom<&str>({})", n);
    ensure!(ClientErrorStatusCode::try_from(text.as_str()).is_ok() == is_client, key("client TryFrom<&str>"), "client TryFrom<&str>({})", n);
    ensure!(ErrorStatusCode::from_bytes(text.as_bytes()).is_ok() == is_err, key("from_bytes"), "from_bytes({})", n);
    ensure!(ClientErrorStatusCode::from_bytes(text.as_bytes()).is_ok() == is_client, key("client from_bytes"), "client from_bytes({})", n);
    ensure!(text.parse::<ErrorStatusCode>().is_ok() == is_err, key("FromStr"), "FromStr({})", n);
    ensure!(text.parse::<ClientErrorStatusCode>().is_ok() == is_client, key("client FromStr"), "client FromStr({})", n);
    Ok(())
}

// ---- constructors x statuses x messages -------------------------------

#[derive(Clone, Debug, Serialize, Deserialize)]
enum Ctor {
    ForClientError,
    ForBadRequest,
    ForClientErrorWithStatus,
    ForNotFound,
    ForInternalError,
    ForUnavail,
    Literal,
}

#[derive(Clone, Debug, Serialize, Deserialize)]
enum HdrVia {
    AddHeader,
    WithHeader,
    HeadersMut,
}

#[derive(Clone, Debug, Serialize, Deserialize)]
struct ErrCase {
    ctor: Ctor,
    /// index into the admissible status range of the constructor
    status_ix: u16,
    external: String,
    code: Option<String>,
    /// internal text, made unique and recognisable by a marker
    internal_salt: u32,
    headers: Vec<(String, String, HdrVia)>,
    request_id: String,
}

fn text_strategy() -> impl Strategy<Value = String> {
    prop_oneof![
        Just(String::new()),
        "[a-zA-Z0-9 ]{1,20}",
        "\\PC{0,40}",
        "[\"\\\\\\n\\r\\t\\x00-\\x1f]{1,8}",
        Just("quote\" back\\slash \u{0} nul \u{2028} \u{1F600}".to_string()),
    ]
}

fn err_case_strategy() -> impl Strategy<Value = ErrCase> {
    let ctor = prop_oneof![
        Just(Ctor::ForClientError),
        Just(Ctor::ForBadRequest),
        Just(Ctor::ForClientErrorWithStatus),
        Just(Ctor::ForNotFound),
        Just(Ctor::ForInternalError),
        Just(Ctor::ForUnavail),
        Just(Ctor::Literal),
    ];
    let hdr = (
        "x-verif-[a-z]{1,6}",
        "[ -~]{0,20}",
        prop_oneof![Just(HdrVia::AddHeader), Just(HdrVia::WithHeader), Just(HdrVia::HeadersMut)],
    )
        .prop_map(|(n, v, via)| (n, v.trim().to_string(), via));
    (
        ctor,
        any::<u16>(),
        text_strategy(),
        proptest::option::of(text_strategy()),
        any::<u32>(),
        proptest::collection::vec(hdr, 0..5),
        prop_oneof![
            "[0-9a-f]{8}-[0-9a-f]{4}-[0-9a-f]{4}-[0-9a-f]{4}-[0-9a-f]{12}",
            "[ -~]{0,30}".prop_map(|s| s.trim().to_string()),
        ],
    )
        .prop_map(|(ctor, status_ix, external, code, internal_salt, headers, request_id)| ErrCase {
            ctor,
            status_ix,
            external,
            code,
            internal_salt,
            headers,
            request_id,
        })
}

fn check_err(c: &ErrCase, st: &mut Stats) -> Result<(), Failure> {
    let marker = format!("INTERNAL-SECRET-{:08x}-zq", c.internal_salt);
    let ctor_name = format!("{:?}", c.ctor);
    // expected (status, external message, code)
    let client_status = 400 + pick_idx(c.status_ix, 100) as u16;
    let any_status = 400 + pick_idx(c.status_ix, 200) as u16;
    let built = catch_quiet(|| -> Result<(HttpError, u16, Option<String>, Option<Option<String>>, bool), String> {
        Ok(match c.ctor {
            Ctor::ForClientError => {
                let s = ClientErrorStatusCode::from_u16(client_status).map_err(|e| e.to_string())?;
                (HttpError::for_client_error(c.code.clone(), s, c.external.clone()), client_status, Some(c.external.clone()), Some(c.code.clone()), false)
            }
            Ctor::ForBadRequest => (HttpError::for_bad_request(c.code.clone(), c.external.clone()), 400, Some(c.external.clone()), Some(c.code.clone()), false),
            Ctor::ForClientErrorWithStatus => {
                let s = ClientErrorStatusCode::from_u16(client_status).map_err(|e| e.to_string())?;
                // external message is "the standard label": not asserted beyond non-leak
                (HttpError::for_client_error_with_status(c.code.clone(), s), client_status, None, Some(c.code.clone()), false)
            }
            Ctor::ForNotFound => (HttpError::for_not_found(c.code.clone(), marker.clone()), 404, None, Some(c.code.clone()), true),
            Ctor::ForInternalError => (HttpError::for_internal_error(marker.clone()), 500, None, None, true),
            Ctor::ForUnavail => (HttpError::for_unavail(c.code.clone(), marker.clone()), 503, None, Some(c.code.clone()), true),
            Ctor::Literal => {
                let s = ErrorStatusCode::from_u16(any_status).map_err(|e| e.to_string())?;
                (
                    HttpError {
                        status_code: s,
                        error_code: c.code.clone(),
                        external_message: c.external.clone(),
                        internal_message: marker.clone(),
                        headers: None,
                    },
                    any_status,
                    Some(c.external.clone()),
                    Some(c.code.clone()),
                    true,
                )
            }
        })
    });
    st.eval();
    st.count(&format!("ctor:{}", ctor_name));
    let (mut err, status, want_msg, want_code, has_secret) = match built {
        Err(p) => fail!(
            format!("ctor-panic:{}", ctor_name),
            "{} with status {} panicked: {}",
            ctor_name,
            client_status,
            p
        ),
        Ok(Err(e)) => fail!("selftest-status", "admissible status refused: {}", e),
        Ok(Ok(x)) => x,
    };
    // attach headers
    let mut attached: Vec<(String, String)> = vec![];
    for (n, v, via) in &c.headers {
        match via {
            HdrVia::AddHeader => {
                err.add_header(n.as_str(), v.as_str())
                    .map_err(|e| Failure::new("selftest-header", format!("legal header refused: {}", e)))?;
            }
            HdrVia::WithHeader => {
                err = err
                    .with_header(n.as_str(), v.as_str())
                    .map_err(|e| Failure::new("selftest-header", format!("legal header refused: {}", e)))?;
            }
            HdrVia::HeadersMut => {
                err.headers_mut().append(
                    http::HeaderName::from_bytes(n.as_bytes()).unwrap(),
                    http::HeaderValue::from_str(v).unwrap(),
                );
            }
        }
        attached.push((n.clone(), v.clone()));
    }
    let id_is_header_legal = http::HeaderValue::from_str(&c.request_id).is_ok();
    if !id_is_header_legal {
        return Ok(());
    }
    let resp = match catch_quiet(|| err.into_response(&c.request_id)) {
        Ok(r) => r,
        Err(p) => fail!(format!("into_response-panic:{}", ctor_name), "into_response panicked: {}", p),
    };
    let (parts, body) = resp.into_parts();
    let rt = tokio::runtime::Builder::new_current_thread().build().unwrap();
    let bytes = rt
        .block_on(body.collect())
        .map_err(|e| Failure::new("body-error", format!("body collect: {}", e)))?
        .to_bytes();
    if !(c.external.is_ascii() && c.headers.is_empty()) || status % 100 > 31 {
        st.nontrivial(hash_of(&format!("{:?}", c)));
    }
    st.sample(|| json!({"ctor": ctor_name, "status": status, "external": c.external, "code": c.code, "headers": attached, "id": c.request_id}));
    ensure!(
        parts.status.as_u16() == status,
        format!("status-mismatch:{}", ctor_name),
        "{}: expected status {}, response has {}",
        ctor_name,
        status,
        parts.status
    );
    let j: serde_json::Value = serde_json::from_slice(&bytes).map_err(|e| {
        Failure::new("body-not-json", format!("{}: body is not JSON: {} :: {:?}", ctor_name, e, String::from_utf8_lossy(&bytes)))
    })?;
    let obj = j.as_object().ok_or_else(|| Failure::new("body-not-object", "body is not an object"))?;
    ensure!(obj.get("request_id") == Some(&json!(c.request_id)), "body-request-id", "request_id in body {:?} != {:?}", obj.get("request_id"), c.request_id);
    if let Some(m) = &want_msg {
        ensure!(obj.get("message") == Some(&json!(m)), format!("body-message:{}", ctor_name), "message {:?} != external {:?}", obj.get("message"), m);
    } else {
        ensure!(obj.get("message").map(|m| m.is_string()).unwrap_or(false), "body-message-missing", "no message string");
    }
    if let Some(code) = &want_code {
        match code {
            Some(code) => ensure!(obj.get("error_code") == Some(&json!(code)), format!("body-code:{}", ctor_name), "error_code {:?} != {:?}", obj.get("error_code"), code),
            None => ensure!(!obj.contains_key("error_code"), format!("body-code-invented:{}", ctor_name), "error_code present though none given: {:?}", obj.get("error_code")),
        }
    }
    for k in obj.keys() {
        ensure!(
            matches!(k.as_str(), "request_id" | "message" | "error_code"),
            "body-extra-key",
            "unexpected key {:?} in error body",
            k
        );
    }
    let ids: Vec<_> = parts.headers.get_all("x-request-id").iter().collect();
    ensure!(ids.len() == 1 && ids[0].as_bytes() == c.request_id.as_bytes(), "header-request-id", "x-request-id headers {:?} != {:?}", ids, c.request_id);
    ensure!(
        parts.headers.get("content-type").map(|v| v.as_bytes()) == Some(b"application/json".as_ref()),
        "content-type",
        "content-type is {:?}",
        parts.headers.get("content-type")
    );
    // attached headers: for each name, the multiset of values is present
    for (n, _) in &attached {
        let mut want: Vec<&str> = attached.iter().filter(|(m, _)| m == n).map(|(_, v)| v.as_str()).collect();
        let mut got: Vec<String> = parts.headers.get_all(n.as_str()).iter().map(|v| String::from_utf8_lossy(v.as_bytes()).to_string()).collect();
        want.sort();
        got.sort();
        ensure!(
            want.iter().map(|s| s.to_string()).collect::<Vec<_>>() == got,
            "attached-header-lost",
            "header {}: attached {:?}, response has {:?}",
            n,
            want,
            got
        );
    }
    if has_secret {
        let mut hay = bytes.to_vec();
        for (n, v) in parts.headers.iter() {
            hay.extend_from_slice(n.as_str().as_bytes());
            hay.extend_from_slice(v.as_bytes());
        }
        hay.extend_from_slice(parts.status.canonical_reason().unwrap_or("").as_bytes());
        let leaked = hay.windows(marker.len()).any(|w| w == marker.as_bytes())
            || hay.windows(15).any(|w| w == b"INTERNAL-SECRET");
        ensure!(!leaked, format!("internal-leak:{}", ctor_name), "{}: internal message found in the response", ctor_name);
    }
    Ok(())
}

// ---- live: request ids over long mixed sequences -----------------------

#[derive(Default)]
struct IdCtx {
    seen_by_handler: Mutex<Vec<String>>,
}

#[derive(Deserialize, JsonSchema)]
struct ModeQuery {
    mode: String,
    #[serde(default)]
    n: Option<u32>,
}

#[derive(Debug, Serialize, JsonSchema)]
struct CustomErr {
    custom_message: String,
    #[serde(skip)]
    status: u16,
}
impl std::fmt::Display for CustomErr {
    fn fmt(&self, f: &mut std::fmt::Formatter<'_>) -> std::fmt::Result {
        write!(f, "custom internal INTERNAL-SECRET-custom")
    }
}
impl dropshot::HttpResponseError for CustomErr {
    fn status_code(&self) -> ErrorStatusCode {
        ErrorStatusCode::from_u16(self.status).unwrap()
    }
}
impl From<HttpError> for CustomErr {
    fn from(e: HttpError) -> Self {
        CustomErr { custom_message: e.external_message, status: e.status_code.as_u16() }
    }
}

async fn h_plain(rq: RequestContext<IdCtx>, q: Query<ModeQuery>) -> Result<HttpResponseOk<serde_json::Value>, HttpError> {
    rq.context().seen_by_handler.lock().unwrap().push(rq.request_id.clone());
    let q = q.into_inner();
    match q.mode.as_str() {
        "ok" => Ok(HttpResponseOk(json!({"seen_id": rq.request_id}))),
        "internal" => Err(HttpError::for_internal_error(format!("INTERNAL-SECRET-live {}", rq.request_id))),
        "unavail" => Err(HttpError::for_unavail(Some("Unavail".into()), "INTERNAL-SECRET-live".into())),
        "notfound" => Err(HttpError::for_not_found(None, "INTERNAL-SECRET-live".into())),
        "client" => Err(HttpError::for_client_error(
            Some("Code".into()),
            ClientErrorStatusCode::from_u16(400 + (q.n.unwrap_or(0) % 100) as u16).unwrap(),
            format!("seen_id={}", rq.request_id),
        )),
        "header" => Err(HttpError::for_bad_request(None, format!("seen_id={}", rq.request_id))
            .with_header("x-verif-extra", "yes")
            .unwrap()),
        _ => Err(HttpError::for_bad_request(None, "unknown mode".into())),
    }
}

async fn h_custom(rq: RequestContext<IdCtx>, q: Query<ModeQuery>) -> Result<HttpResponseOk<serde_json::Value>, CustomErr> {
    rq.context().seen_by_handler.lock().unwrap().push(rq.request_id.clone());
    let q = q.into_inner();
    if q.mode == "ok" {
        Ok(HttpResponseOk(json!({"seen_id": rq.request_id})))
    } else {
        Err(CustomErr { custom_message: format!("seen_id={}", rq.request_id), status: 400 + (q.n.unwrap_or(0) % 200) as u16 })
    }
}

/// handlers that put an x-request-id of their own on the response (a proxy copying upstream headers would)
async fn h_own_raw(rq: RequestContext<IdCtx>, q: Query<ModeQuery>) -> Result<http::Response<dropshot::Body>, HttpError> {
    rq.context().seen_by_handler.lock().unwrap().push(rq.request_id.clone());
    let body = serde_json::to_vec(&json!({"seen_id": rq.request_id})).unwrap();
    Ok(http::Response::builder()
        .status(200)
        .header("content-type", "application/json")
        .header("x-request-id", format!("upstream-{}", q.into_inner().mode))
        .body(dropshot::Body::from(body))
        .unwrap())
}
async fn h_own_hdr(rq: RequestContext<IdCtx>, q: Query<ModeQuery>) -> Result<dropshot::HttpResponseHeaders<HttpResponseOk<serde_json::Value>>, HttpError> {
    rq.context().seen_by_handler.lock().unwrap().push(rq.request_id.clone());
    let mut r = dropshot::HttpResponseHeaders::new_unnamed(HttpResponseOk(json!({"seen_id": rq.request_id})));
    r.headers_mut().insert("x-request-id", http::HeaderValue::from_str(&format!("upstream-{}", q.into_inner().mode)).unwrap());
    Ok(r)
}
async fn h_own_err(rq: RequestContext<IdCtx>, q: Query<ModeQuery>) -> Result<HttpResponseOk<serde_json::Value>, HttpError> {
    rq.context().seen_by_handler.lock().unwrap().push(rq.request_id.clone());
    Err(HttpError::for_bad_request(None, format!("seen_id={}", rq.request_id)).with_header("x-request-id", format!("upstream-{}", q.into_inner().mode)).unwrap())
}

#[derive(Deserialize, JsonSchema)]
struct SomeBody {
    #[allow(dead_code)]
    a: u32,
}

async fn h_body(rq: RequestContext<IdCtx>, _b: TypedBody<SomeBody>) -> Result<HttpResponseOk<serde_json::Value>, HttpError> {
    rq.context().seen_by_handler.lock().unwrap().push(rq.request_id.clone());
    Ok(HttpResponseOk(json!({"seen_id": rq.request_id})))
}

#[derive(Clone, Debug, Serialize, Deserialize)]
enum Req {
    Ok,
    Internal,
    Unavail,
    HandlerNotFound,
    Client(u32),
    WithHeader,
    CustomOk,
    CustomErr(u32),
    CustomBadQuery,
    Route404,
    Route405,
    BadQuery,
    BadBody,
    GoodBody,
    BadPath,
    /// the handler sets its own x-request-id: on a raw response, via explicit typed-response headers, on an error
    OwnRaw(u16),
    OwnHdr(u16),
    OwnErr(u16),
}

fn req_strategy() -> impl Strategy<Value = Req> {
    prop_oneof![
        Just(Req::Ok),
        Just(Req::Internal),
        Just(Req::Unavail),
        Just(Req::HandlerNotFound),
        any::<u32>().prop_map(Req::Client),
        Just(Req::WithHeader),
        Just(Req::CustomOk),
        any::<u32>().prop_map(Req::CustomErr),
        Just(Req::CustomBadQuery),
        Just(Req::Route404),
        Just(Req::Route405),
        Just(Req::BadQuery),
        Just(Req::BadBody),
        Just(Req::GoodBody),
        Just(Req::BadPath),
        any::<u16>().prop_map(Req::OwnRaw),
        any::<u16>().prop_map(Req::OwnHdr),
        any::<u16>().prop_map(Req::OwnErr),
    ]
}

#[derive(Clone, Debug, Serialize, Deserialize)]
struct SeqCase {
    reqs: Vec<Req>,
    /// reuse one keep-alive connection instead of one per request
    keepalive: bool,
}

fn render(r: &Req) -> (Vec<u8>, bool) {
    let mk = |m: &str, t: &str, body: Option<&[u8]>| {
        http1::build_request(m, t, &[("content-type".to_string(), "application/json".to_string())], body)
    };
    match r {
        Req::Ok => (mk("GET", "/plain?mode=ok", None), false),
        Req::Internal => (mk("GET", "/plain?mode=internal", None), false),
        Req::Unavail => (mk("GET", "/plain?mode=unavail", None), false),
        Req::HandlerNotFound => (mk("GET", "/plain?mode=notfound", None), false),
        Req::Client(n) => (mk("GET", &format!("/plain?mode=client&n={}", n), None), false),
        Req::WithHeader => (mk("GET", "/plain?mode=header", None), false),
        Req::CustomOk => (mk("GET", "/custom?mode=ok", None), false),
        Req::CustomErr(n) => (mk("GET", &format!("/custom?mode=err&n={}", n), None), false),
        Req::CustomBadQuery => (mk("GET", "/custom?n=notanumber", None), false),
        Req::Route404 => (mk("GET", "/nonexistent/route", None), false),
        Req::Route405 => (mk("DELETE", "/plain", None), false),
        Req::BadQuery => (mk("GET", "/plain?n=1", None), false),
        Req::BadBody => (mk("PUT", "/body", Some(b"{\"a\": \"x\"}")), false),
        Req::GoodBody => (mk("PUT", "/body", Some(b"{\"a\": 7}")), false),
        Req::BadPath => (mk("GET", "/plain/%2e%2e/../x", None), false),
        Req::OwnRaw(n) => (mk("GET", &format!("/ownraw?mode={}", n % 3), None), false),
        Req::OwnHdr(n) => (mk("GET", &format!("/ownhdr?mode={}", n % 3), None), false),
        Req::OwnErr(n) => (mk("GET", &format!("/ownerr?mode={}", n % 3), None), false),
    }
}

struct LiveIds {
    addr: std::net::SocketAddr,
    server: dropshot::HttpServer<IdCtx>,
    all_ids: Mutex<HashSet<String>>,
}

fn check_seq(live: &LiveIds, rt: &tokio::runtime::Runtime, c: &SeqCase, st: &mut Stats) -> Result<(), Failure> {
    let r: Result<(), Failure> = rt.block_on(async {
        let mut conn: Option<http1::Conn> = None;
        for (i, rq) in c.reqs.iter().enumerate() {
            let (bytes, head) = render(rq);
            let resp = {
                if conn.is_none() || !c.keepalive {
                    conn = Some(http1::Conn::connect(live.addr).await.map_err(|e| Failure::new("connect", e.to_string()))?);
                }
                let cn = conn.as_mut().unwrap();
                cn.send(&bytes).await.map_err(|e| Failure::new("send", e.to_string()))?;
                match cn.read_response(head, Duration::from_secs(10)).await.resp() {
                    Ok(r) => r,
                    Err(e) => fail!("no-response", "request #{} {:?}: {}", i, rq, e),
                }
            };
            if resp.header("connection").map(|c| c.eq_ignore_ascii_case("close")).unwrap_or(false) {
                conn = None;
            }
            st.eval();
            st.count(&format!("req:{}", format!("{:?}", rq).split('(').next().unwrap()));
            let ids = resp.header_all("x-request-id");
            let own = matches!(rq, Req::OwnRaw(_) | Req::OwnHdr(_) | Req::OwnErr(_));
            if own {
                // The handler put an x-request-id of its own on the response.  The statement asks for *an*
                // x-request-id header equal to the id the handler was given (and, for errors, for the
                // attached headers to be sent as well), so a second line with the handler's value is not
                // judged; the framework's own id must be there and is the one examined below.
                st.count("handler_set_its_own_request_id");
                ensure!(!ids.is_empty(), "request-id-missing", "{:?}: no x-request-id header (status {})", rq, resp.status);
                ensure!(
                    ids.iter().any(|v| !v.starts_with(b"upstream-")),
                    "request-id-replaced-by-handler-value",
                    "{:?}: the only x-request-id values are the handler's own {:?}; the id of this request is not on the response (status {})",
                    rq,
                    ids.iter().map(|v| String::from_utf8_lossy(v).to_string()).collect::<Vec<_>>(),
                    resp.status
                );
            } else {
                ensure!(ids.len() == 1, "request-id-missing", "{:?}: {} x-request-id headers (status {})", rq, ids.len(), resp.status);
            }
            let id = String::from_utf8_lossy(ids.iter().find(|v| !v.starts_with(b"upstream-")).unwrap_or(&ids[0])).to_string();
            ensure!(!id.is_empty(), "request-id-empty", "{:?}: empty request id", rq);
            let fresh = live.all_ids.lock().unwrap().insert(id.clone());
            ensure!(fresh, "request-id-reused", "{:?}: request id {} was already used by an earlier response", rq, id);
            // body checks
            let text = resp.body_text();
            ensure!(!text.contains("INTERNAL-SECRET"), "internal-leak-live", "{:?}: internal text in body: {}", rq, text);
            let expect_handler = matches!(
                rq,
                Req::Ok | Req::Internal | Req::Unavail | Req::HandlerNotFound | Req::Client(_) | Req::WithHeader | Req::CustomOk | Req::CustomErr(_) | Req::GoodBody | Req::OwnRaw(_) | Req::OwnHdr(_) | Req::OwnErr(_)
            );
            if !head {
                let j = resp.json();
                let framework_error = resp.status >= 400 && !matches!(rq, Req::CustomErr(_) | Req::CustomBadQuery);
                if framework_error {
                    let j = j.clone().ok_or_else(|| Failure::new("error-body-not-json", format!("{:?}: {}", rq, text)))?;
                    ensure!(j["request_id"] == json!(id), "body-id-mismatch", "{:?}: body request_id {} != header {}", rq, j["request_id"], id);
                    ensure!(j["message"].is_string(), "body-message-missing", "{:?}: {}", rq, text);
                }
                // the id the handler saw
                let seen: Option<String> = match rq {
                    Req::Ok | Req::CustomOk | Req::GoodBody | Req::OwnRaw(_) | Req::OwnHdr(_) => j.as_ref().and_then(|j| j["seen_id"].as_str().map(|s| s.to_string())),
                    Req::Client(_) | Req::WithHeader | Req::OwnErr(_) => j.as_ref().and_then(|j| j["message"].as_str().and_then(|m| m.strip_prefix("seen_id=").map(|s| s.to_string()))),
                    Req::CustomErr(_) => j.as_ref().and_then(|j| j["custom_message"].as_str().and_then(|m| m.strip_prefix("seen_id=").map(|s| s.to_string()))),
                    _ => None,
                };
                if matches!(rq, Req::Ok | Req::CustomOk | Req::GoodBody | Req::Client(_) | Req::WithHeader | Req::CustomErr(_) | Req::OwnRaw(_) | Req::OwnHdr(_) | Req::OwnErr(_)) {
                    ensure!(seen.as_deref() == Some(id.as_str()), "handler-id-mismatch", "{:?}: handler saw {:?}, header says {} (status {}, body {})", rq, seen, id, resp.status, text);
                }
            }
            // status expectations (coarse: class only; exact codes are other properties' business)
            let want: std::ops::Range<u16> = match rq {
                Req::Ok | Req::CustomOk | Req::GoodBody | Req::OwnRaw(_) | Req::OwnHdr(_) => 200..201,
                Req::Internal => 500..501,
                Req::Unavail => 503..504,
                Req::HandlerNotFound | Req::Route404 => 404..405,
                Req::Client(n) => (400 + (n % 100) as u16)..(401 + (n % 100) as u16),
                Req::CustomErr(n) => (400 + (n % 200) as u16)..(401 + (n % 200) as u16),
                Req::Route405 => 405..406,
                _ => 400..500,
            };
            ensure!(want.contains(&resp.status), "live-status", "{:?}: status {} not in {:?}; body {}", rq, resp.status, want, text);
            if matches!(rq, Req::WithHeader) {
                ensure!(resp.header("x-verif-extra").as_deref() == Some("yes"), "attached-header-lost-live", "attached header missing on the wire");
            }
            if expect_handler {
                let seen = live.server.app_private().seen_by_handler.lock().unwrap();
                ensure!(seen.last().map(|s| s == &id).unwrap_or(false), "handler-id-mismatch", "{:?}: last id the handler recorded {:?} != {}", rq, seen.last(), id);
            }
        }
        Ok(())
    });
    r?;
    let kinds: HashSet<String> = c.reqs.iter().map(|r| format!("{:?}", r).split('(').next().unwrap().to_string()).collect();
    if c.reqs.len() >= 4 && kinds.len() >= 3 {
        st.nontrivial(hash_of(&format!("{:?}", c)));
    }
    st.sample(|| json!({"keepalive": c.keepalive, "requests": c.reqs.iter().map(|r| format!("{:?}", r)).collect::<Vec<_>>()}));
    Ok(())
}

#[derive(Clone, Debug, Serialize, Deserialize)]
struct ConcCase {
    clients: u8,
    per_client: u8,
    kinds: Vec<u8>,
}

/// many clients at once: ids must be unique across *concurrent* requests too
fn check_concurrent(live: &LiveIds, rt: &tokio::runtime::Runtime, c: &ConcCase, st: &mut Stats) -> Result<(), Failure> {
    let addr = live.addr;
    let results: Vec<Result<Vec<(String, Option<String>)>, Failure>> = rt.block_on(async {
        let mut hs = vec![];
        for ci in 0..c.clients.max(1) {
            let kinds = c.kinds.clone();
            let per = c.per_client.max(1);
            hs.push(tokio::spawn(async move {
                let mut out = vec![];
                let mut conn = http1::Conn::connect(addr).await.map_err(|e| Failure::new("connect", e.to_string()))?;
                for i in 0..per {
                    let k = kinds[(ci as usize + i as usize) % kinds.len()] % 4;
                    let target = ["/plain?mode=ok", "/plain?mode=client&n=7", "/custom?mode=ok", "/nonexistent"][k as usize];
                    let req = http1::build_request("GET", target, &[], None);
                    conn.send(&req).await.map_err(|e| Failure::new("send", e.to_string()))?;
                    let resp = conn.read_response(false, Duration::from_secs(20)).await.resp().map_err(|e| Failure::new("no-response", e))?;
                    let id = resp.header("x-request-id").ok_or_else(|| Failure::new("request-id-missing", format!("GET {}: status {}", target, resp.status)))?;
                    let seen = resp.json().and_then(|j| {
                        j["seen_id"].as_str().map(|s| s.to_string()).or_else(|| j["message"].as_str().and_then(|m| m.strip_prefix("seen_id=").map(|s| s.to_string())))
                    });
                    out.push((id, if k < 3 { Some(seen.unwrap_or_default()) } else { None }));
                }
                Ok(out)
            }));
        }
        let mut v = vec![];
        for h in hs {
            v.push(h.await.unwrap_or_else(|e| Err(Failure::new("client-task", e.to_string()))));
        }
        v
    });
    let mut batch: HashSet<String> = HashSet::new();
    for r in results {
        for (id, seen) in r? {
            st.eval();
            ensure!(batch.insert(id.clone()), "request-id-reused", "request id {} was handed to two concurrent requests", id);
            ensure!(live.all_ids.lock().unwrap().insert(id.clone()), "request-id-reused", "request id {} was used before", id);
            if let Some(s) = seen {
                ensure!(s == id, "handler-id-mismatch", "handler saw {:?}, response header says {}", s, id);
            }
        }
    }
    if c.clients >= 4 {
        st.nontrivial(hash_of(&format!("{:?}", c)));
    }
    st.sample(|| json!({"clients": c.clients, "requests_per_client": c.per_client}));
    Ok(())
}

pub fn run(ctx: &mut Ctx) {
    ctx.rule = "all 65536 u16 offered to both status types through every conversion (non-trivial: values within 5 of 400/600 or at a hundred boundary); generated errors = constructor x admissible status x message/code/header/request-id text (non-trivial: non-ASCII or control text, attached headers, or unusual status; distinct by full case); live sequences of mixed success/error requests (non-trivial: >=4 requests of >=3 kinds)".into();
    ctx.assume("attached header names avoid content-type/x-request-id/framing headers; request ids offered to into_response are legal header values (the server only generates UUIDs)");
    ctx.assume("responses hyper produces on its own for unparsable HTTP are outside 'a well-formed HTTP request'");

    ctx.enumerate("status_u16", 0u16..=u16::MAX, true, check_u16);

    let n = ctx.tier.pick(30000, 500000);
    ctx.phase("into_response", n, err_case_strategy(), check_err);

    // live
    let live = {
        let _g = ctx.rt.enter();
        let mut api: ApiDescription<IdCtx> = ApiDescription::new();
        api.register(ApiEndpoint::new("plain".into(), h_plain, http::Method::GET, "application/json", "/plain", ApiEndpointVersions::All)).unwrap();
        api.register(ApiEndpoint::new("custom".into(), h_custom, http::Method::GET, "application/json", "/custom", ApiEndpointVersions::All)).unwrap();
        api.register(ApiEndpoint::new("body".into(), h_body, http::Method::PUT, "application/json", "/body", ApiEndpointVersions::All)).unwrap();
        api.register(ApiEndpoint::new("ownraw".into(), h_own_raw, http::Method::GET, "application/json", "/ownraw", ApiEndpointVersions::All)).unwrap();
        api.register(ApiEndpoint::new("ownhdr".into(), h_own_hdr, http::Method::GET, "application/json", "/ownhdr", ApiEndpointVersions::All)).unwrap();
        api.register(ApiEndpoint::new("ownerr".into(), h_own_err, http::Method::GET, "application/json", "/ownerr", ApiEndpointVersions::All)).unwrap();
        let server = start_server(api, IdCtx::default(), Default::default(), None).expect("server");
        LiveIds { addr: server.local_addr(), server, all_ids: Mutex::new(HashSet::new()) }
    };
    let _ = discard_log;
    let n = ctx.tier.pick(1500, 20000);
    {
        let rt = tokio::runtime::Builder::new_current_thread().enable_all().build().unwrap();
        let strat = (proptest::collection::vec(req_strategy(), 1..24), any::<bool>())
            .prop_map(|(reqs, keepalive)| SeqCase { reqs, keepalive });
        ctx.phase("live_request_ids", n, strat, |c, st| check_seq(&live, &rt, c, st));
    }
    {
        let rt = tokio::runtime::Builder::new_multi_thread().worker_threads(4).enable_all().build().unwrap();
        let n = ctx.tier.pick(150, 3000);
        let strat = (1u8..24, 1u8..20, proptest::collection::vec(any::<u8>(), 1..8)).prop_map(|(clients, per_client, kinds)| ConcCase { clients, per_client, kinds });
        ctx.phase("concurrent_request_ids", n, strat, |c, st| check_concurrent(&live, &rt, c, st));
    }
    let _ = ctx.rt.block_on(live.server.close());
}
