//! C10 — invalid input is refused with a 4xx before any handler runs.
//! A valid request (C09's generator) plus exactly one malformation that is
//! invalid by construction.

use crate::c09::*;
use crate::core::*;
use crate::echoapi::COLORS;
use crate::encoders::*;
use crate::http1;
use crate::{ensure, fail};
use proptest::prelude::*;
use serde::{Deserialize, Serialize};
use serde_json::json;
use std::time::Duration;

#[derive(Clone, Debug, Serialize, Deserialize)]
pub enum Mal {
    PathSeg { pos: u8, bad: u16, all: bool, garbage: Option<String> },
    QueryVal { field: u8, bad: u16, all: bool, garbage: Option<String> },
    QueryMissing { field: u8, all: bool },
    QueryDup { field: u8, all: bool },
    JsonField { field: u8, bad: u16, all: bool },
    JsonMissing { field: u8, all: bool },
    JsonDup { field: u8, all: bool },
    JsonSyntax { kind: u8, at: u16, all: bool },
    ContentType { kind: u8, target: u8 },
    FormField { field: u8, bad: u16, garbage: Option<String> },
    FormMissing { field: u8 },
    FormDup { field: u8 },
    /// one undecodable component among the components of a typed wildcard remainder
    WildElem { uuid: bool, good: Vec<u16>, at: u16, bad: u16, garbage: Option<String> },
    /// an ill-typed first-page (scan) parameter of a paginated endpoint
    PageVal { field: u8, bad: u16, garbage: Option<String> },
    /// a required first-page parameter missing
    PageMissing { field: u8 },
    /// a first-page parameter given twice
    PageDup { field: u8 },
    /// a body that is well-formed for the *other* typed-body content type, labelled as such: form-encoded
    /// to the endpoint declaring JSON (true) or JSON to the endpoint declaring form encoding (false)
    CrossEncoded { to_json_endpoint: bool },
    /// the data-carrying variant of a mixed enum named in a path segment (only if such a parameter
    /// type got past registration)
    MixedEnumVariant,
}

#[derive(Clone, Debug, Serialize, Deserialize)]
pub struct BadCase {
    pub path: PathSpec,
    pub query: QuerySpec,
    pub body: JsonSpec,
    pub form: FormSpec,
    pub mal: Mal,
    pub style: u64,
    pub chunked: bool,
}

const PATH_BAD: [&[&str]; 5] = [
    // n: u32
    &["abc", "12x", "-1", "4294967296", "1.5", "0x10", " 1", "1 ", "٣", "+-1", "1e3", "99999999999999999999", "%00"],
    // id: uuid
    &["not-a-uuid", "1234", "zzzzzzzz-zzzz-zzzz-zzzz-zzzzzzzzzzzz", "12345678-1234-1234-1234-1234567890abcdef", "12345678-1234-1234-1234-1234567890a", "g2345678-1234-1234-1234-1234567890ab"],
    // color
    &["purple", "RED", "Red", "dark_green", "0", "red ", "blue", "darkgreen"],
    // neg: i64
    &["9223372036854775808", "-9223372036854775809", "1.0", "abc", "--1", "1_000", "٣"],
    // flag: bool
    &["yes", "2", "maybe", "tru", "t", "01", "truefalse"],
];

const QUERY_FIELDS: [&str; 13] = ["tag", "s", "u8v", "i8v", "i64v", "u64v", "b", "ch", "f", "opt", "optn", "color", "d"];
const QUERY_REQUIRED: usize = 9;
fn query_bad(field: &str) -> &'static [&'static str] {
    match field {
        "u8v" => &["256", "-1", "abc", "1.0", " ", "", "0x1"],
        "i8v" => &["128", "-129", "x", "1e1"],
        "i64v" => &["9223372036854775808", "-9223372036854775809", "1.5", "abc"],
        "u64v" => &["18446744073709551616", "-1", "1.5", "abc", ""],
        "b" => &["yes", "2", "maybe", ""],
        "ch" => &["ab", "", "abc"],
        "f" => &["abc", "1,5", "--1", ""],
        "optn" => &["x", "65536", "-1", "1.5"],
        "color" => &["purple", "RED", "0", ""],
        "d" => &["-1", "65536", "x", "1.0"],
        _ => &[],
    }
}
const QUERY_BADDABLE: [&str; 10] = ["u8v", "i8v", "i64v", "u64v", "b", "ch", "f", "optn", "color", "d"];

const JSON_FIELDS: [&str; 14] = ["text", "n64", "i", "small", "f", "flag", "list", "numbers", "nested", "map", "e", "tagged", "opt", "dflt"];
const JSON_REQUIRED: usize = 12;
fn json_bad(field: &str) -> &'static [&'static str] {
    match field {
        "text" => &["1", "null", "true", "[\"a\"]", "{}"],
        "n64" => &["-1", "18446744073709551616", "1.5", "1e2", "\"12\"", "null", "true", "[1]", "{}", "1.0"],
        "i" => &["9223372036854775808", "-9223372036854775809", "0.5", "\"x\"", "null", "1e3"],
        "small" => &["128", "-129", "1.0", "\"1\"", "null", "300"],
        "f" => &["\"1.0\"", "null", "true", "[]", "{}"],
        "flag" => &["0", "\"true\"", "null", "1", "\"yes\""],
        "list" => &["\"a\"", "[1]", "[null]", "{}", "null", "[\"a\",2]"],
        "numbers" => &["[2147483648]", "[1.5]", "[\"1\"]", "7", "[-2147483649]", "null"],
        "nested" => &["null", "\"x\"", "[]", "{\"name\":\"a\"}", "{\"name\":1,\"depth\":1}", "{\"name\":\"a\",\"depth\":256}", "{\"name\":\"a\",\"depth\":1,\"child\":{\"name\":\"b\"}}"],
        "map" => &["[]", "{\"k\":\"v\"}", "{\"k\":2147483648}", "null", "{\"k\":1.5}"],
        "e" => &["\"purple\"", "\"RED\"", "1", "null", "{\"red\":1}", "\"\""],
        "tagged" => &["{\"kind\":\"Bogus\"}", "{\"kind\":\"Pair\",\"value\":{\"left\":1}}", "{\"kind\":\"Text\",\"value\":5}", "{\"value\":\"x\"}", "\"Text\"", "null", "{\"kind\":\"Pair\",\"value\":{\"left\":1,\"right\":2147483648}}"],
        "opt" => &["1", "[]", "{}", "false"],
        "dflt" => &["-1", "4294967296", "\"1\"", "null", "1.5"],
        _ => &[],
    }
}

const FORM_FIELDS: [&str; 6] = ["a", "b", "c", "e", "big", "o"];
const FORM_REQUIRED: usize = 5;
fn form_bad(field: &str) -> &'static [&'static str] {
    match field {
        "b" => &["2147483648", "-2147483649", "x", "1.5", ""],
        "c" => &["yes", "2", ""],
        "e" => &["purple", "RED", ""],
        "big" => &["18446744073709551616", "-1", "abc"],
        _ => &[],
    }
}
const FORM_BADDABLE: [&str; 4] = ["b", "c", "e", "big"];

/// free-form text that is then made unparseable for the target type
fn garbage() -> impl Strategy<Value = Option<String>> {
    prop_oneof![
        3 => Just(None),
        2 => "\\PC{1,60}".prop_map(Some),
        2 => ("[0-9]{0,40}", "[日本語éü🦀]{1,6}", "[0-9a-z]{0,8}").prop_map(|(a, b, c)| Some(format!("{}{}{}", a, b, c))),
        1 => ("[a-f0-9-]{20,40}", "[€ß]{1,3}").prop_map(|(a, b)| Some(format!("{}{}", a, b))),
        1 => "[ -~]{1,80}".prop_map(Some),
    ]
}

/// make `g` invalid for the named type by construction (own predicates)
fn spoil(kind: &str, g: &str) -> String {
    let g = if g.is_empty() || g == "." || g == ".." { format!("x{}", g) } else { g.to_string() };
    let plain_int = |s: &str| {
        let t = s.strip_prefix('+').or_else(|| s.strip_prefix('-')).unwrap_or(s);
        !t.is_empty() && t.bytes().all(|b| b.is_ascii_digit())
    };
    match kind {
        "int" => {
            if plain_int(&g) {
                format!("{}~", g)
            } else {
                g
            }
        }
        "bool" => {
            if g == "true" || g == "false" {
                format!("{}!", g)
            } else {
                g
            }
        }
        "uuid" => {
            // anything with a character no uuid spelling contains
            format!("{}~", g)
        }
        "enum" => {
            if COLORS.iter().any(|(_, n)| *n == g) {
                format!("{}~", g)
            } else {
                g
            }
        }
        "char" => {
            if g.chars().count() == 1 {
                format!("{}{}", g, g)
            } else {
                g
            }
        }
        _ => g,
    }
}

fn mal_strategy() -> impl Strategy<Value = Mal> {
    prop_oneof![
        4 => (0u8..5, any::<u16>(), any::<bool>(), garbage()).prop_map(|(pos, bad, all, garbage)| Mal::PathSeg { pos, bad, all, garbage }),
        4 => (0u8..10, any::<u16>(), any::<bool>(), garbage()).prop_map(|(field, bad, all, garbage)| Mal::QueryVal { field, bad, all, garbage }),
        1 => (0u8..9, any::<bool>()).prop_map(|(field, all)| Mal::QueryMissing { field, all }),
        1 => (0u8..13, any::<bool>()).prop_map(|(field, all)| Mal::QueryDup { field, all }),
        4 => (0u8..14, any::<u16>(), any::<bool>()).prop_map(|(field, bad, all)| Mal::JsonField { field, bad, all }),
        1 => (0u8..12, any::<bool>()).prop_map(|(field, all)| Mal::JsonMissing { field, all }),
        1 => (0u8..14, any::<bool>()).prop_map(|(field, all)| Mal::JsonDup { field, all }),
        4 => (0u8..17, any::<u16>(), any::<bool>()).prop_map(|(kind, at, all)| Mal::JsonSyntax { kind, at, all }),
        2 => (0u8..9, 0u8..3).prop_map(|(kind, target)| Mal::ContentType { kind, target }),
        2 => (0u8..4, any::<u16>(), garbage()).prop_map(|(field, bad, garbage)| Mal::FormField { field, bad, garbage }),
        1 => (0u8..5).prop_map(|field| Mal::FormMissing { field }),
        1 => (0u8..6).prop_map(|field| Mal::FormDup { field }),
        2 => (any::<bool>(), proptest::collection::vec(any::<u16>(), 0..4), any::<u16>(), any::<u16>(), garbage()).prop_map(|(uuid, good, at, bad, garbage)| Mal::WildElem { uuid, good, at, bad, garbage }),
        2 => (0u8..10, any::<u16>(), garbage()).prop_map(|(field, bad, garbage)| Mal::PageVal { field, bad, garbage }),
        1 => (0u8..9).prop_map(|field| Mal::PageMissing { field }),
        1 => (0u8..13).prop_map(|field| Mal::PageDup { field }),
        2 => any::<bool>().prop_map(|to_json_endpoint| Mal::CrossEncoded { to_json_endpoint }),
        1 => Just(Mal::MixedEnumVariant),
    ]
}

pub fn bad_case_strategy() -> impl Strategy<Value = BadCase> {
    (echo_req_parts(), mal_strategy(), any::<u64>(), any::<bool>()).prop_map(|((path, query, body, form), mal, style, chunked)| BadCase {
        path,
        query,
        body,
        form,
        mal,
        style,
        chunked,
    })
}

fn simple_pairs(pairs: &[(String, String)]) -> String {
    let mut st = Style(7);
    pairs.iter().map(|(k, v)| format!("{}={}", enc_component(k, &mut st, false), enc_component(v, &mut st, false))).collect::<Vec<_>>().join("&")
}

fn json_fields(j: &JsonSpec) -> Vec<(String, String)> {
    let mut st = Style(11);
    let v = json_wire_value(j, &mut st);
    let m = v.as_object().unwrap();
    // fixed field order
    JSON_FIELDS
        .iter()
        .filter_map(|k| {
            m.get(*k).map(|x| {
                let text = if *k == "f" { format!("{:?}", json_f_value(j)) } else { serde_json::to_string(x).unwrap() };
                (k.to_string(), text)
            })
        })
        .collect()
}

fn join_json(fields: &[(String, String)]) -> String {
    format!("{{{}}}", fields.iter().map(|(k, v)| format!("{}:{}", serde_json::to_string(k).unwrap(), v)).collect::<Vec<_>>().join(","))
}

pub struct BadWire {
    pub bytes: Vec<u8>,
    pub op: &'static str,
    pub class: String,
    pub desc: String,
}

/// Build the malformed request.  Returns None when the malformation does not
/// apply to the generated base (e.g. duplicating an absent optional field).
pub fn render_bad(c: &BadCase) -> Option<BadWire> {
    let tag = "c10";
    let mut st = Style(c.style);
    // base pieces
    let mut path_segs: Vec<String> = vec![
        enc_path_segment(&c.path.s, &mut st),
        c.path.n.to_string(),
        uuid_canonical_pub(&c.path.id),
        COLORS[c.path.color as usize % 3].1.to_string(),
        c.path.neg.to_string(),
        c.path.flag.to_string(),
    ];
    let mut qpairs = query_pairs_pub(tag, &c.query, &mut Style(3));
    let mut jfields = json_fields(&c.body);
    let mut body_override: Option<Vec<u8>> = None;
    let mut wild_path: Option<String> = None;
    let mut ct: Option<Vec<u8>> = Some(b"application/json".to_vec());
    let (op, class, desc): (&'static str, String, String);
    let use_all = |all: bool, single: &'static str| if all { "ve_all" } else { single };
    match &c.mal {
        Mal::PathSeg { pos, bad, all, garbage } => {
            let p = (*pos as usize) % 5;
            let list = PATH_BAD[p];
            let spoiled = garbage.as_ref().map(|g| spoil(["int", "uuid", "enum", "int", "bool"][p], g));
            let b: &str = match &spoiled {
                Some(g) => g.as_str(),
                None => *pick(*bad, list),
            };
            path_segs[p + 1] = enc_path_segment(b, &mut st);
            op = use_all(*all, "ve_path");
            class = format!("path:{}", ["n", "id", "color", "neg", "flag"][p]);
            desc = format!("path variable {} = {:?}", ["n", "id", "color", "neg", "flag"][p], b);
        }
        Mal::QueryVal { field, bad, all, garbage } => {
            let f = QUERY_BADDABLE[(*field as usize) % QUERY_BADDABLE.len()];
            let kind = match f {
                "b" => "bool",
                "ch" => "char",
                "color" => "enum",
                "f" => "",
                _ => "int",
            };
            let spoiled = if kind.is_empty() { None } else { garbage.as_ref().map(|g| spoil(kind, g)) };
            let b: &str = match &spoiled {
                Some(g) => g.as_str(),
                None => *pick(*bad, query_bad(f)),
            };
            qpairs.retain(|(k, _)| k != f);
            qpairs.push((f.to_string(), b.to_string()));
            op = use_all(*all, "ve_query");
            class = format!("query-value:{}", f);
            desc = format!("query parameter {} = {:?}", f, b);
        }
        Mal::QueryMissing { field, all } => {
            let f = QUERY_FIELDS[(*field as usize) % QUERY_REQUIRED];
            qpairs.retain(|(k, _)| k != f);
            op = use_all(*all, "ve_query");
            class = "query-missing".into();
            desc = format!("required query parameter {} missing", f);
        }
        Mal::QueryDup { field, all } => {
            let f = QUERY_FIELDS[(*field as usize) % QUERY_FIELDS.len()];
            let existing = qpairs.iter().find(|(k, _)| k == f).cloned()?;
            qpairs.push(existing);
            op = use_all(*all, "ve_query");
            class = "query-duplicate".into();
            desc = format!("query parameter {} given twice", f);
        }
        Mal::JsonField { field, bad, all } => {
            let f = JSON_FIELDS[(*field as usize) % JSON_FIELDS.len()];
            let b = pick(*bad, json_bad(f));
            jfields.retain(|(k, _)| k != f);
            jfields.push((f.to_string(), b.to_string()));
            op = use_all(*all, "ve_json");
            class = format!("json-value:{}", f);
            desc = format!("JSON field {} = {}", f, b);
        }
        Mal::JsonMissing { field, all } => {
            let f = JSON_FIELDS[(*field as usize) % JSON_REQUIRED];
            jfields.retain(|(k, _)| k != f);
            op = use_all(*all, "ve_json");
            class = "json-missing".into();
            desc = format!("required JSON field {} missing", f);
        }
        Mal::JsonDup { field, all } => {
            let f = JSON_FIELDS[(*field as usize) % JSON_FIELDS.len()];
            let existing = jfields.iter().find(|(k, _)| k == f).cloned()?;
            jfields.push(existing);
            op = use_all(*all, "ve_json");
            class = "json-duplicate".into();
            desc = format!("JSON field {} given twice", f);
        }
        Mal::JsonSyntax { kind, at, all } => {
            let t = join_json(&jfields);
            let tb = t.as_bytes().to_vec();
            let k = kind % 17;
            let (bytes, what): (Vec<u8>, String) = match k {
                0 => {
                    let cut = pick_idx(*at, tb.len());
                    (tb[..cut].to_vec(), format!("JSON truncated at offset {} of {}", cut, tb.len()))
                }
                1 => (format!("{{,{}", &t[1..]).into_bytes(), "stray comma after '{'".into()),
                2 => (format!("{},}}", &t[..t.len() - 1]).into_bytes(), "trailing comma before '}'".into()),
                3 => (t.replacen("\"text\":", "text:", 1).into_bytes(), "unquoted key".into()),
                4 => (t.replacen("\"text\":\"", "\"text\":\"\\x41", 1).into_bytes(), "bad escape \\x".into()),
                5 => {
                    let mut f2 = jfields.clone();
                    for (k, v) in f2.iter_mut() {
                        if k == "f" {
                            *v = ["NaN", "Infinity", "-Infinity", "nan"][pick_idx(*at, 4)].to_string();
                        }
                    }
                    (join_json(&f2).into_bytes(), "NaN/Infinity literal".into())
                }
                6 => {
                    let g = ["xyz", "!", "]", "}", "0", "\"s\"", "null", ",", "\u{0}"][pick_idx(*at, 9)];
                    (format!("{} {}", t, g).into_bytes(), format!("trailing non-whitespace {:?} after the value", g))
                }
                7 => (format!("{}{}", t, t).into_bytes(), "two concatenated JSON values".into()),
                8 => {
                    let mut b = t.replacen("\"text\":\"", "\"text\":\"\u{1}MARK", 1).into_bytes();
                    // replace the marker by invalid UTF-8
                    if let Some(p) = b.windows(5).position(|w| w == b"\x01MARK") {
                        b.splice(p..p + 5, [0xff, 0xfe, 0xc3]);
                    }
                    (b, "invalid UTF-8 inside a JSON string".into())
                }
                9 => (t.replacen("\"text\":\"", "\"text\":\"a\nb", 1).into_bytes(), "raw control character in a string".into()),
                10 => (t.replacen("\"text\":", "'text':", 1).into_bytes(), "single-quoted key".into()),
                11 => {
                    let mut f2 = jfields.clone();
                    for (k, v) in f2.iter_mut() {
                        if k == "dflt" || k == "small" {
                            *v = "01".into();
                        }
                    }
                    (join_json(&f2).into_bytes(), "number with a leading zero".into())
                }
                12 => {
                    let mut f2 = jfields.clone();
                    for (k, v) in f2.iter_mut() {
                        if k == "small" {
                            *v = "+1".into();
                        }
                    }
                    (join_json(&f2).into_bytes(), "number with a leading plus".into())
                }
                13 => (format!("{}}}", t).into_bytes(), "extra closing brace".into()),
                14 => (format!("[{}", &t[1..]).into_bytes(), "'{' replaced by '['".into()),
                15 => (format!("{}\n\n]", t).into_bytes(), "trailing ']' after whitespace".into()),
                _ => (t.replacen(":", "=", 1).into_bytes(), "'=' instead of ':'".into()),
            };
            body_override = Some(bytes);
            op = use_all(*all, "ve_json");
            class = if matches!(k, 6 | 7 | 13 | 15) { "json-syntax:trailing-data".to_string() } else { format!("json-syntax:{}", k) };
            desc = what;
        }
        Mal::ContentType { kind, target } => {
            let (o, base): (&'static str, &str) = match target % 3 {
                0 => ("ve_json", "json"),
                1 => ("ve_all", "json"),
                _ => ("ve_form", "form"),
            };
            let v: Vec<u8> = match (kind % 9, base) {
                (0, _) => b"text/plain".to_vec(),
                (1, "json") => b"application/x-www-form-urlencoded".to_vec(),
                (1, _) => b"application/json".to_vec(),
                (2, _) => b"multipart/form-data; boundary=x".to_vec(),
                (3, _) => b"application/octet-stream".to_vec(),
                (4, "json") => b"application/jsonx".to_vec(),
                (4, _) => b"application/x-www-form-urlencodedx".to_vec(),
                (5, _) => b"text/json".to_vec(),
                (6, _) => b"application/json-patch+json".to_vec(),
                (7, _) => b"json".to_vec(),
                _ => vec![b'a', b'p', b'p', 0xff, 0xfe, b'/', b'j'],
            };
            ct = Some(v.clone());
            op = o;
            class = format!("content-type:{}", kind % 9);
            desc = format!("content-type {:?} on a {} endpoint", String::from_utf8_lossy(&v), base);
        }
        Mal::WildElem { uuid, good, at, bad, garbage } => {
            let mut comps: Vec<String> = good
                .iter()
                .map(|g| if *uuid { uuid_canonical_pub(&wild_uuid(*g)) } else { COLORS[*g as usize % 3].1.to_string() })
                .collect();
            let spoiled = garbage.as_ref().map(|g| spoil(if *uuid { "uuid" } else { "enum" }, g));
            let b: String = match &spoiled {
                Some(g) => g.clone(),
                None => pick(*bad, PATH_BAD[if *uuid { 1 } else { 2 }]).to_string(),
            };
            let pos = pick_idx(*at, comps.len() + 1);
            comps.insert(pos, b.clone());
            wild_path = Some(comps.iter().map(|c| enc_path_segment(c, &mut st)).collect::<Vec<_>>().join("/"));
            op = if *uuid { "ve_uwild" } else { "ve_cwild" };
            class = format!("wildcard-element:{}", if *uuid { "uuid" } else { "enum" });
            desc = format!("component {} of {} in a wildcard remainder of {} = {:?}", pos + 1, comps.len(), if *uuid { "UUIDs" } else { "enum values" }, b);
        }
        Mal::PageVal { field, bad, garbage } => {
            let f = QUERY_BADDABLE[(*field as usize) % QUERY_BADDABLE.len()];
            let kind = match f {
                "b" => "bool",
                "ch" => "char",
                "color" => "enum",
                "f" => "",
                _ => "int",
            };
            let spoiled = if kind.is_empty() { None } else { garbage.as_ref().map(|g| spoil(kind, g)) };
            let b: &str = match &spoiled {
                Some(g) => g.as_str(),
                None => *pick(*bad, query_bad(f)),
            };
            qpairs.retain(|(k, _)| k != f);
            qpairs.push((f.to_string(), b.to_string()));
            op = "ve_page";
            class = format!("page-value:{}", f);
            desc = format!("first-page parameter {} = {:?}", f, b);
        }
        Mal::PageMissing { field } => {
            let f = QUERY_FIELDS[(*field as usize) % QUERY_REQUIRED];
            qpairs.retain(|(k, _)| k != f);
            op = "ve_page";
            class = "page-missing".into();
            desc = format!("required first-page parameter {} missing", f);
        }
        Mal::PageDup { field } => {
            let f = QUERY_FIELDS[(*field as usize) % QUERY_FIELDS.len()];
            let existing = qpairs.iter().find(|(k, _)| k == f).cloned()?;
            qpairs.push(existing);
            op = "ve_page";
            class = "page-duplicate".into();
            desc = format!("first-page parameter {} given twice", f);
        }
        Mal::MixedEnumVariant => {
            op = "ve_mixed";
            class = "path:mixed-enum-data-variant".into();
            desc = "path variable sel = \"Id\" (a variant that carries a u32, which a path segment cannot supply)".into();
        }
        Mal::CrossEncoded { to_json_endpoint } => {
            let fs = &c.form;
            if *to_json_endpoint {
                let mut pairs = vec![
                    ("a".to_string(), fs.a.clone()),
                    ("b".to_string(), fs.b.to_string()),
                    ("c".to_string(), fs.c.to_string()),
                    ("e".to_string(), COLORS[fs.e as usize % 3].1.to_string()),
                    ("big".to_string(), fs.big.to_string()),
                ];
                if let Some(o) = &fs.o {
                    pairs.push(("o".into(), o.clone()));
                }
                body_override = Some(simple_pairs(&pairs).into_bytes());
                ct = Some(b"application/x-www-form-urlencoded".to_vec());
                op = "ve_flatjson";
                desc = "a well-formed form-encoded body, labelled application/x-www-form-urlencoded, sent to an endpoint that declares application/json".into();
            } else {
                body_override = Some(json!({"a": fs.a, "b": fs.b, "c": fs.c, "e": COLORS[fs.e as usize % 3].1, "big": fs.big, "o": fs.o}).to_string().into_bytes());
                ct = Some(b"application/json".to_vec());
                op = "ve_form_json";
                desc = "a well-formed JSON body, labelled application/json, sent to an endpoint that declares application/x-www-form-urlencoded".into();
            }
            class = format!("cross-encoded:{}", if *to_json_endpoint { "form-to-json-endpoint" } else { "json-to-form-endpoint" });
        }
        Mal::FormField { .. } | Mal::FormMissing { .. } | Mal::FormDup { .. } => {
            let fs = &c.form;
            let mut pairs = vec![
                ("a".to_string(), fs.a.clone()),
                ("b".to_string(), fs.b.to_string()),
                ("c".to_string(), fs.c.to_string()),
                ("e".to_string(), COLORS[fs.e as usize % 3].1.to_string()),
                ("big".to_string(), fs.big.to_string()),
            ];
            if let Some(o) = &fs.o {
                pairs.push(("o".into(), o.clone()));
            }
            match &c.mal {
                Mal::FormField { field, bad, garbage } => {
                    let f = FORM_BADDABLE[(*field as usize) % 4];
                    let kind = match f {
                        "c" => "bool",
                        "e" => "enum",
                        _ => "int",
                    };
                    let spoiled = garbage.as_ref().map(|g| spoil(kind, g));
                    let b: &str = match &spoiled {
                        Some(g) => g.as_str(),
                        None => *pick(*bad, form_bad(f)),
                    };
                    pairs.retain(|(k, _)| k != f);
                    pairs.push((f.to_string(), b.to_string()));
                    class = format!("form-value:{}", f);
                    desc = format!("form field {} = {:?}", f, b);
                }
                Mal::FormMissing { field } => {
                    let f = FORM_FIELDS[(*field as usize) % FORM_REQUIRED];
                    pairs.retain(|(k, _)| k != f);
                    class = "form-missing".into();
                    desc = format!("required form field {} missing", f);
                }
                Mal::FormDup { field } => {
                    let f = FORM_FIELDS[(*field as usize) % FORM_FIELDS.len()];
                    let existing = pairs.iter().find(|(k, _)| k == f).cloned()?;
                    pairs.push(existing);
                    class = "form-duplicate".into();
                    desc = format!("form field {} given twice", f);
                }
                _ => unreachable!(),
            }
            body_override = Some(simple_pairs(&pairs).into_bytes());
            ct = Some(b"application/x-www-form-urlencoded".to_vec());
            op = "ve_form";
        }
    }
    // assemble
    let (method, target, body): (&str, String, Option<Vec<u8>>) = match op {
        "ve_path" => ("GET", format!("/e/path/{}?tag={}", path_segs.join("/"), tag), None),
        "ve_query" => ("GET", format!("/e/query?{}", simple_pairs(&qpairs)), None),
        "ve_page" => ("GET", format!("/e/page?{}", simple_pairs(&qpairs)), None),
        "ve_mixed" => ("GET", format!("/e/mixed/Id?tag={}", tag), None),
        "ve_cwild" => ("GET", format!("/e/cwild/{}?tag={}", wild_path.clone().unwrap_or_default(), tag), None),
        "ve_uwild" => ("GET", format!("/e/uwild/{}?tag={}", wild_path.clone().unwrap_or_default(), tag), None),
        "ve_json" => ("POST", format!("/e/json?tag={}", tag), Some(body_override.unwrap_or_else(|| join_json(&jfields).into_bytes()))),
        "ve_all" => (
            "PUT",
            format!("/e/all/{}?{}", path_segs.join("/"), simple_pairs(&qpairs)),
            Some(body_override.unwrap_or_else(|| join_json(&jfields).into_bytes())),
        ),
        "ve_flatjson" => ("POST", format!("/e/flatjson?tag={}", tag), Some(body_override.clone().unwrap_or_default())),
        "ve_form_json" => ("POST", format!("/e/form?tag={}", tag), Some(body_override.clone().unwrap_or_default())),
        "ve_form" => ("POST", format!("/e/form?tag={}", tag), Some(body_override.unwrap_or_else(|| {
            let fs = &c.form;
            let mut pairs = vec![
                ("a".to_string(), fs.a.clone()),
                ("b".to_string(), fs.b.to_string()),
                ("c".to_string(), fs.c.to_string()),
                ("e".to_string(), COLORS[fs.e as usize % 3].1.to_string()),
                ("big".to_string(), fs.big.to_string()),
            ];
            if let Some(o) = &fs.o {
                pairs.push(("o".into(), o.clone()));
            }
            simple_pairs(&pairs).into_bytes()
        }))),
        _ => unreachable!(),
    };
    let mut out = Vec::new();
    out.extend_from_slice(format!("{} {} HTTP/1.1\r\nhost: verif\r\nx-verif-tag: {}\r\n", method, target, tag).as_bytes());
    if let (Some(ct), Some(_)) = (&ct, &body) {
        if op == "ve_form" && !matches!(c.mal, Mal::ContentType { .. } | Mal::CrossEncoded { .. }) {
            out.extend_from_slice(b"content-type: application/x-www-form-urlencoded\r\n");
        } else {
            out.extend_from_slice(b"content-type: ");
            out.extend_from_slice(ct);
            out.extend_from_slice(b"\r\n");
        }
    }
    if let Some(b) = &body {
        if c.chunked {
            out.extend_from_slice(b"transfer-encoding: chunked\r\n\r\n");
            out.extend_from_slice(&http1::chunked_body(b, &[7, 300], false, false));
        } else {
            out.extend_from_slice(format!("content-length: {}\r\n\r\n", b.len()).as_bytes());
            out.extend_from_slice(b);
        }
    } else {
        out.extend_from_slice(b"\r\n");
    }
    let op = if op == "ve_form_json" { "ve_form" } else { op };
    Some(BadWire { bytes: out, op, class, desc })
}

/// the unmodified request for the same operation (must be accepted)
fn wild_uuid(g: u16) -> [u8; 16] {
    let a = splitmix64(g as u64).to_le_bytes();
    let b = splitmix64(g as u64 ^ 0x55).to_le_bytes();
    let mut id = [0u8; 16];
    id[..8].copy_from_slice(&a);
    id[8..].copy_from_slice(&b);
    id
}

fn render_good(c: &BadCase, op: &str) -> Wire {
    let fr = Framing { chunked: c.chunked, chunk_sizes: vec![7, 300], ext: false, trailer: false, cuts: vec![], ct_variant: 0 };
    let req = match op {
        "ve_path" => EchoReq::Path(c.path.clone()),
        "ve_query" => EchoReq::Query(c.query.clone()),
        "ve_page" => EchoReq::Page(c.query.clone(), None),
        "ve_flatjson" => EchoReq::FlatJson(c.form.clone(), fr),
        "ve_mixed" => {
            let bytes = http1::build_request("GET", "/e/mixed/All?tag=c10", &[], None);
            return Wire { parts: Default::default(), bytes, cuts: vec![], method: "GET", target: "/e/mixed/All?tag=c10".into(), expected: serde_json::Value::Null, op: "ve_mixed" };
        }
        "ve_cwild" | "ve_uwild" => match &c.mal {
            Mal::WildElem { uuid: true, good, .. } => EchoReq::UuidWild(good.iter().map(|g| wild_uuid(*g)).collect()),
            Mal::WildElem { good, .. } => EchoReq::ColorWild(good.iter().map(|g| (*g % 3) as u8).collect()),
            _ => unreachable!(),
        },
        "ve_json" => EchoReq::Json(c.body.clone(), fr),
        "ve_all" => EchoReq::All(c.path.clone(), c.query.clone(), c.body.clone(), fr),
        _ => EchoReq::Form(c.form.clone(), fr),
    };
    render(&req, "c10", c.style)
}

fn check_bad(live: &LiveEcho, rt: &tokio::runtime::Runtime, c: &BadCase, st: &mut Stats) -> Result<(), Failure> {
    let Some(bw) = render_bad(c) else {
        st.count("not-applicable");
        return Ok(());
    };
    if bw.op == "ve_mixed" {
        // does the endpoint exist at all?  (registration refuses it on a correct tree)
        let probe = http1::build_request("GET", "/e/mixed/All?tag=c10", &[], None);
        let r = rt.block_on(http1::oneshot(live.addr, &probe, false, Duration::from_secs(10))).map_err(|e| Failure::new("no-response-valid", e))?;
        if r.status == 404 {
            st.count("mixed-enum-endpoint-refused-at-registration");
            return Ok(());
        }
    }
    let good = render_good(c, bw.op);
    let ctx = live.server.app_private();
    rt.block_on(async {
        // 1. the unmodified request is accepted (otherwise the case proves nothing)
        let mut conn = http1::Conn::connect(live.addr).await.map_err(|e| Failure::new("connect", e.to_string()))?;
        conn.send(&good.bytes).await.map_err(|e| Failure::new("send", e.to_string()))?;
        let r0 = conn.read_response(false, Duration::from_secs(10)).await.resp().map_err(|e| Failure::new("no-response-valid", e))?;
        ensure!(r0.status == 200, "selftest-base-refused", "the unmodified request for {} was refused: {} {}", bw.op, r0.status, truncate(&r0.body_text(), 300));
        // 2. the malformed one, on the same connection
        let before = ctx.entered_of(bw.op);
        let before_total = ctx.total();
        conn.send(&bw.bytes).await.map_err(|e| Failure::new("send", e.to_string()))?;
        let out = conn.read_response(false, Duration::from_secs(10)).await;
        st.eval();
        st.count(&format!("class:{}", bw.class.split(':').next().unwrap()));
        st.nontrivial(hash_of(&(bw.op, &bw.class, &bw.bytes)));
        let shown = truncate(&String::from_utf8_lossy(&bw.bytes), 700);
        let resp = match out.resp() {
            Ok(r) => r,
            Err(e) => fail!(format!("no-response:{}", bw.class), "{} ({}): no response: {} -- request: {}", bw.desc, bw.op, e, shown),
        };
        let after = ctx.entered_of(bw.op);
        let after_total = ctx.total();
        ensure!(
            after == before && after_total == before_total,
            format!("handler-ran:{}", bw.class),
            "{} ({}): the handler was invoked (status {}) -- request: {}",
            bw.desc,
            bw.op,
            resp.status,
            shown
        );
        ensure!(
            (400..500).contains(&resp.status),
            format!("status-{}xx:{}", resp.status / 100, bw.class),
            "{} ({}): expected a 4xx, got {} {} -- request: {}",
            bw.desc,
            bw.op,
            resp.status,
            truncate(&resp.body_text(), 200),
            shown
        );
        if let Some(id) = resp.header("x-request-id") {
            let j = resp.json().ok_or_else(|| Failure::new("error-body-not-json", format!("{}: {}", bw.desc, truncate(&resp.body_text(), 200))))?;
            ensure!(j["request_id"] == json!(id) && j["message"].is_string(), "error-body-shape", "{}: error body {} (x-request-id {})", bw.desc, j, id);
        } else {
            // refused by the HTTP layer itself (e.g. undecodable header): fine
            st.count("refused_by_http_layer");
        }
        // 3. the server still works: same connection if kept alive, and a fresh one
        let closed = resp.header("connection").map(|c| c.eq_ignore_ascii_case("close")).unwrap_or(false);
        if !closed {
            if conn.send(&good.bytes).await.is_ok() {
                match conn.read_response(false, Duration::from_secs(10)).await {
                    http1::ReadOutcome::Resp(r) => ensure!(r.status == 200, format!("followup-refused:{}", bw.class), "{}: follow-up valid request on the same connection got {}", bw.desc, r.status),
                    http1::ReadOutcome::Closed(b) if b.is_empty() => {}
                    o => fail!(format!("followup-broken:{}", bw.class), "{}: follow-up on the same connection: {:?}", bw.desc, o.resp().err()),
                }
            }
        }
        let h = http1::oneshot(live.addr, &http1::build_request("GET", "/health", &[], None), false, Duration::from_secs(10))
            .await
            .map_err(|e| Failure::new("health-after-bad-input", format!("{}: {}", bw.desc, e)))?;
        ensure!(h.status == 200, "health-after-bad-input", "{}: health probe got {}", bw.desc, h.status);
        st.sample(|| json!({"malformation": bw.desc, "op": bw.op, "status": resp.status, "request": shown, "error": truncate(&resp.body_text(), 200)}));
        Ok(())
    })
}

pub fn run(ctx: &mut Ctx) {
    ctx.rule = "a valid request from C09's generator (confirmed accepted first) with exactly one constructed malformation: ill-typed/out-of-range/unknown-variant token in each path, query, first-page (pagination scan) parameter, JSON and form position, or as one component (any position) of a wildcard remainder typed as enum values or UUIDs; missing required field; duplicated field; 17 kinds of malformed JSON incl. truncation at every offset, trailing data and concatenated values; wrong or undecodable content type; a body well-formed for the other typed-body encoding and labelled as such (form-encoded to a JSON endpoint, JSON to a form endpoint). Oracle: a response arrives, 4xx, framework error body with matching request id, per-operation handler-entry counter unchanged, follow-up requests succeed. non-trivial = every executed case (all are invalid by construction); distinct by (operation, class, request bytes)".into();
    ctx.assume("float overflow (1e400) is not generated; content types with parameters are valid and belong to C09; a leading '+' on integers and other spellings the Rust parsers accept are not in the malformation table");
    ctx.max_shrink_iters = 600;
    let srt = tokio::runtime::Builder::new_multi_thread().worker_threads(2).enable_all().build().unwrap();
    let rt = tokio::runtime::Builder::new_current_thread().enable_all().build().unwrap();
    let live = start_echo(&srt, 1 << 20, dropshot::HandlerTaskMode::Detached);
    let n = ctx.tier.pick(9000, 250000);
    ctx.phase("malformations", n, bad_case_strategy(), |c, st| check_bad(&live, &rt, c, st));
    for k in ["path", "query-value", "query-missing", "query-duplicate", "json-value", "json-missing", "json-duplicate", "json-syntax", "content-type", "form-value", "form-missing", "form-duplicate", "wildcard-element", "page-value", "page-missing", "page-duplicate", "cross-encoded"] {
        ctx.require_frac("malformations", &format!("class:{}", k), "class:path", 0.05);
    }
    let _ = srt.block_on(live.server.close());
}
