//! Shared engine: seeds, proptest runner wrapper, statistics, evidence,
//! replay files and known findings.
//!
//! A check is a sequence of *phases*.  Each phase has a name, a proptest
//! strategy that produces serialisable cases, and a check function
//! `Fn(&Case, &mut Stats) -> Result<(), Failure>`.  The same check function is
//! used for generated search, for the committed regression replays under
//! `/verif/regress/<id>/` and for `--replay <file>`.

use proptest::strategy::Strategy;
use proptest::test_runner::{
    Config, RngAlgorithm, RngSeed, TestCaseError, TestError, TestRunner,
};
use serde::de::DeserializeOwned;
use serde::{Deserialize, Serialize};
use serde_json::{json, Value};
use std::cell::RefCell;
use std::collections::hash_map::DefaultHasher;
use std::collections::{BTreeMap, BTreeSet, HashSet};
use std::hash::{Hash, Hasher};
use std::path::{Path, PathBuf};
use std::time::Instant;

pub const VERIF_DIR: &str = "/verif";

#[derive(Clone, Copy, Debug, PartialEq, Eq)]
pub enum Tier {
    Quick,
    Thorough,
}

impl Tier {
    pub fn name(&self) -> &'static str {
        match self {
            Tier::Quick => "quick",
            Tier::Thorough => "thorough",
        }
    }
    /// pick a size by tier
    pub fn pick<T>(&self, quick: T, thorough: T) -> T {
        match self {
            Tier::Quick => quick,
            Tier::Thorough => thorough,
        }
    }
}

pub fn splitmix64(mut x: u64) -> u64 {
    x = x.wrapping_add(0x9E3779B97F4A7C15);
    let mut z = x;
    z = (z ^ (z >> 30)).wrapping_mul(0xBF58476D1CE4E5B9);
    z = (z ^ (z >> 27)).wrapping_mul(0x94D049BB133111EB);
    z ^ (z >> 31)
}

pub fn hash_str(s: &str) -> u64 {
    let mut h = DefaultHasher::new();
    s.hash(&mut h);
    h.finish()
}

pub fn hash_of<T: Hash>(t: &T) -> u64 {
    let mut h = DefaultHasher::new();
    t.hash(&mut h);
    h.finish()
}

/// A failed expectation.  `key` is the *class signature* used to match
/// entries of `known_findings.json`; `msg` says expected vs observed.
#[derive(Clone, Debug, Serialize, Deserialize)]
pub struct Failure {
    pub key: String,
    pub msg: String,
}

impl Failure {
    pub fn new(key: impl Into<String>, msg: impl Into<String>) -> Failure {
        Failure { key: key.into(), msg: msg.into() }
    }
}

#[macro_export]
macro_rules! fail {
    ($key:expr, $($arg:tt)*) => {
        return Err($crate::core::Failure::new($key, format!($($arg)*)))
    };
}

#[macro_export]
macro_rules! ensure {
    ($cond:expr, $key:expr, $($arg:tt)*) => {
        if !($cond) {
            return Err($crate::core::Failure::new($key, format!($($arg)*)));
        }
    };
}

/// Per-phase statistics; frozen at the first failure because proptest
/// re-runs the closure while shrinking.
#[derive(Default)]
pub struct Stats {
    pub evaluations: u64,
    pub nontrivial: HashSet<u64>,
    pub hist: BTreeMap<String, u64>,
    pub samples: Vec<Value>,
    pub sample_seen: u64,
    pub excluded_known: u64,
    pub frozen: bool,
    pub exhaustive: bool,
    rs: u64,
}

const MAX_SAMPLES: usize = 6;

impl Stats {
    pub fn count(&mut self, class: &str) {
        if self.frozen {
            return;
        }
        *self.hist.entry(class.to_string()).or_insert(0) += 1;
    }
    pub fn count_n(&mut self, class: &str, n: u64) {
        if self.frozen {
            return;
        }
        *self.hist.entry(class.to_string()).or_insert(0) += n;
    }
    /// one more executed evaluation (an oracle comparison against the code)
    pub fn eval(&mut self) {
        if !self.frozen {
            self.evaluations += 1;
        }
    }
    pub fn evals(&mut self, n: u64) {
        if !self.frozen {
            self.evaluations += n;
        }
    }
    /// record a non-trivial case by its canonical hash
    pub fn nontrivial(&mut self, h: u64) {
        if !self.frozen {
            self.nontrivial.insert(h);
        }
    }
    /// offer a sample (first two kept, then reservoir)
    pub fn sample(&mut self, f: impl FnOnce() -> Value) {
        if self.frozen {
            return;
        }
        self.sample_seen += 1;
        if self.samples.len() < MAX_SAMPLES {
            self.samples.push(f());
        } else {
            self.rs = splitmix64(self.rs ^ self.sample_seen);
            let j = (self.rs % self.sample_seen) as usize;
            if j < MAX_SAMPLES && j >= 2 {
                self.samples[j] = f();
            }
        }
    }
    pub fn get(&self, class: &str) -> u64 {
        self.hist.get(class).copied().unwrap_or(0)
    }
}

#[derive(Clone, Debug, Deserialize)]
pub struct KnownEntry {
    pub property: String,
    pub key: String,
    pub status: String,
    #[serde(default)]
    pub commit: Option<String>,
    pub what: String,
}

#[derive(Clone, Debug, Serialize, Deserialize)]
pub struct ReplayFile {
    pub property: String,
    pub phase: String,
    pub case: Value,
    #[serde(default)]
    pub key: String,
    #[serde(default)]
    pub msg: String,
}

pub struct ViolationRec {
    pub phase: String,
    pub key: String,
    pub msg: String,
    pub replay: PathBuf,
}

pub struct PhaseReport {
    pub name: String,
    pub stats: Stats,
    pub note: String,
}

pub struct Ctx {
    pub id: String,
    pub tier: Tier,
    pub seed: u64,
    pub started: Instant,
    pub known: Vec<KnownEntry>,
    pub known_hits: BTreeSet<String>,
    pub phases: Vec<PhaseReport>,
    pub violations: Vec<ViolationRec>,
    pub replay: Option<ReplayFile>,
    pub replay_ran: bool,
    pub assumptions: Vec<String>,
    pub rule: String,
    pub harness_errors: Vec<String>,
    pub only_phase: Option<String>,
    pub max_shrink_iters: u32,
    pub rt: tokio::runtime::Runtime,
}

impl Ctx {
    pub fn new(id: &str, tier: Tier, seed: u64, replay: Option<ReplayFile>) -> Ctx {
        let known = load_known();
        let rt = tokio::runtime::Builder::new_multi_thread()
            .worker_threads(8)
            .enable_all()
            .build()
            .unwrap();
        Ctx {
            id: id.to_string(),
            tier,
            seed: if seed == 0 { 0x5eed } else { seed },
            started: Instant::now(),
            known,
            known_hits: BTreeSet::new(),
            phases: vec![],
            violations: vec![],
            replay,
            replay_ran: false,
            assumptions: vec![],
            rule: String::new(),
            harness_errors: vec![],
            only_phase: std::env::var("VERIF_PHASE").ok(),
            max_shrink_iters: 4000,
            rt,
        }
    }

    pub fn phase_seed(&self, phase: &str) -> u64 {
        splitmix64(self.seed ^ hash_str(&format!("{}/{}", self.id, phase)))
    }

    pub fn is_known_open(&self, key: &str) -> Option<&KnownEntry> {
        self.known
            .iter()
            .find(|k| k.property == self.id && k.key == key && k.status == "open")
    }

    pub fn assume(&mut self, s: &str) {
        self.assumptions.push(s.to_string());
    }

    pub fn harness_error(&mut self, s: String) {
        eprintln!("HARNESS-ERROR {}: {}", self.id, s);
        self.harness_errors.push(s);
    }

    fn regress_cases(&self, phase: &str) -> Vec<(PathBuf, ReplayFile)> {
        let dir = Path::new(VERIF_DIR).join("regress").join(&self.id);
        let mut out = vec![];
        if let Ok(rd) = std::fs::read_dir(&dir) {
            let mut files: Vec<_> =
                rd.filter_map(|e| e.ok()).map(|e| e.path()).collect();
            files.sort();
            for f in files {
                if f.extension().map(|e| e == "json").unwrap_or(false) {
                    match std::fs::read_to_string(&f)
                        .ok()
                        .and_then(|s| serde_json::from_str::<ReplayFile>(&s).ok())
                    {
                        Some(r) if r.phase == phase => out.push((f, r)),
                        Some(_) => {}
                        None => eprintln!("warning: unreadable regress file {:?}", f),
                    }
                }
            }
        }
        out
    }

    fn write_replay<C: Serialize>(&self, phase: &str, case: &C, f: &Failure) -> PathBuf {
        let dir = Path::new(VERIF_DIR).join("replays");
        let _ = std::fs::create_dir_all(&dir);
        let body = ReplayFile {
            property: self.id.clone(),
            phase: phase.to_string(),
            case: serde_json::to_value(case).unwrap_or(Value::Null),
            key: f.key.clone(),
            msg: f.msg.clone(),
        };
        let text = serde_json::to_string_pretty(&body).unwrap();
        let h = hash_str(&text);
        let path = dir.join(format!("{}-{}-{:016x}.json", self.id, phase, h));
        let _ = std::fs::write(&path, text);
        path
    }

    fn record_violation<C: Serialize>(&mut self, phase: &str, case: &C, f: &Failure) {
        let path = self.write_replay(phase, case, f);
        println!(
            "VIOLATION property={} replay={}",
            self.id,
            path.display()
        );
        println!("  phase={} key={} :: {}", phase, f.key, truncate(&f.msg, 1500));
        self.violations.push(ViolationRec {
            phase: phase.to_string(),
            key: f.key.clone(),
            msg: f.msg.clone(),
            replay: path,
        });
    }

    /// Handle a failure from a check function inside generated search:
    /// returns true if the failure is a listed open finding (tolerated,
    /// counted and reported once), false if it is a violation.
    fn tolerate_known(&mut self, f: &Failure, stats: &mut Stats) -> bool {
        if let Some(k) = self.is_known_open(&f.key) {
            let line = format!("KNOWN-FINDING: property={} {} [{}]", self.id, k.what, k.key);
            if self.known_hits.insert(line.clone()) {
                println!("{}", line);
            }
            if !stats.frozen {
                stats.excluded_known += 1;
            }
            true
        } else {
            false
        }
    }

    /// Run one phase.  In replay mode only the matching phase runs, on the
    /// one case of the replay file.
    pub fn phase<C, S, F>(&mut self, name: &str, cases: u32, strategy: S, check: F)
    where
        C: Serialize + DeserializeOwned + std::fmt::Debug + Clone,
        S: Strategy<Value = C>,
        F: Fn(&C, &mut Stats) -> Result<(), Failure>,
    {
        if let Some(r) = self.replay.clone() {
            if r.phase != name {
                return;
            }
            self.replay_ran = true;
            let case: C = match serde_json::from_value(r.case.clone()) {
                Ok(c) => c,
                Err(e) => {
                    self.harness_error(format!("replay case does not deserialise: {}", e));
                    return;
                }
            };
            let mut stats = Stats::default();
            stats.eval();
            stats.nontrivial(1);
            stats.nontrivial(2);
            stats.samples.push(r.case.clone());
            match guarded(&check, &case, &mut stats) {
                Ok(()) => println!("replay: case passes"),
                Err(f) => {
                    // strict mode: a replayed failure is always reported
                    println!("replay: FAIL key={} :: {}", f.key, f.msg);
                    self.record_violation(name, &case, &f);
                }
            }
            self.phases.push(PhaseReport { name: name.into(), stats, note: "replay".into() });
            return;
        }
        if let Some(only) = &self.only_phase {
            if only != name {
                return;
            }
        }
        let t0 = Instant::now();
        let mut stats = Stats::default();
        stats.rs = self.phase_seed(name);

        // 1. committed regression replays for this phase
        for (path, r) in self.regress_cases(name) {
            match serde_json::from_value::<C>(r.case.clone()) {
                Ok(case) => {
                    stats.count("regress_replayed");
                    if let Err(f) = guarded(&check, &case, &mut stats) {
                        if !self.tolerate_known(&f, &mut stats) {
                            println!("regression replay {} fails", path.display());
                            self.record_violation(name, &case, &f);
                        }
                    }
                }
                Err(e) => self.harness_error(format!(
                    "regress file {:?} does not deserialise: {}",
                    path, e
                )),
            }
        }

        // 2. generated search
        let seed = self.phase_seed(name);
        let mut seed_bytes = [0u8; 32];
        for i in 0..4 {
            seed_bytes[i * 8..(i + 1) * 8]
                .copy_from_slice(&splitmix64(seed.wrapping_add(i as u64)).to_le_bytes());
        }
        let config = Config {
            cases,
            failure_persistence: None,
            max_shrink_iters: self.max_shrink_iters,
            max_shrink_time: 120_000,
            rng_algorithm: RngAlgorithm::ChaCha,
            rng_seed: RngSeed::Fixed(seed),
            max_global_rejects: 65536,
            ..Config::default()
        };
        let _ = seed_bytes;
        let mut runner = TestRunner::new(config);
        let cell = RefCell::new((&mut *self, &mut stats));
        let result = runner.run(&strategy, |case| {
            let mut guard = cell.borrow_mut();
            let (ctx, stats) = &mut *guard;
            match guarded(&check, &case, stats) {
                Ok(()) => Ok(()),
                Err(f) => {
                    if ctx.tolerate_known(&f, stats) {
                        Ok(())
                    } else {
                        if !stats.frozen && std::env::var("VERIF_DEBUG_FIRST").is_ok() {
                            eprintln!("FIRST FAILURE {}: {}\ncase: {}", f.key, f.msg, serde_json::to_string(&case).unwrap_or_default());
                        }
                        stats.frozen = true;
                        Err(TestCaseError::fail(format!("{}: {}", f.key, f.msg)))
                    }
                }
            }
        });
        drop(cell);
        match result {
            Ok(()) => {}
            Err(TestError::Fail(_reason, shrunk)) => {
                // re-run on the shrunk case to get the exact failure
                let mut tmp = Stats::default();
                tmp.frozen = true;
                let f = match guarded(&check, &shrunk, &mut tmp) {
                    Err(f) => f,
                    Ok(()) => Failure::new(
                        "nondeterministic",
                        format!("shrunk case passed on re-run; original reason: {}", _reason),
                    ),
                };
                self.record_violation(name, &shrunk, &f);
            }
            Err(TestError::Abort(reason)) => {
                self.harness_error(format!("phase {} aborted: {}", name, reason));
            }
        }
        let note = format!("{:.2}s", t0.elapsed().as_secs_f64());
        eprintln!(
            "[{}] phase {:<22} evals={:<8} nontrivial={:<7} known_excluded={} {}",
            self.id,
            name,
            stats.evaluations,
            stats.nontrivial.len(),
            stats.excluded_known,
            note
        );
        self.phases.push(PhaseReport { name: name.into(), stats, note });
    }

    /// Run an enumerated (non-proptest) phase: the body drives everything and
    /// reports failures through the returned list.  `cases` are serialisable
    /// so that replay works identically.
    pub fn enumerate<C, I, F>(&mut self, name: &str, cases: I, exhaustive: bool, check: F)
    where
        C: Serialize + DeserializeOwned + std::fmt::Debug + Clone,
        I: IntoIterator<Item = C>,
        F: Fn(&C, &mut Stats) -> Result<(), Failure>,
    {
        if let Some(r) = self.replay.clone() {
            if r.phase != name {
                return;
            }
            // delegate to the generic replay path
            self.phase(name, 0, proptest::strategy::Just(()).prop_map(|_| -> C { unreachable!() }), check);
            return;
        }
        if let Some(only) = &self.only_phase {
            if only != name {
                return;
            }
        }
        let t0 = Instant::now();
        let mut stats = Stats::default();
        stats.rs = self.phase_seed(name);
        stats.exhaustive = exhaustive;
        let mut reported: HashSet<String> = HashSet::new();
        for (path, r) in self.regress_cases(name) {
            if let Ok(case) = serde_json::from_value::<C>(r.case.clone()) {
                stats.count("regress_replayed");
                if let Err(f) = guarded(&check, &case, &mut stats) {
                    if !self.tolerate_known(&f, &mut stats) && reported.insert(f.key.clone()) {
                        println!("regression replay {} fails", path.display());
                        self.record_violation(name, &case, &f);
                    }
                }
            }
        }
        for case in cases {
            if let Err(f) = guarded(&check, &case, &mut stats) {
                if !self.tolerate_known(&f, &mut stats) {
                    // report at most one violation per class signature, and
                    // stop after a handful of classes
                    if reported.insert(f.key.clone()) {
                        self.record_violation(name, &case, &f);
                    }
                    if reported.len() >= 5 {
                        break;
                    }
                }
            }
        }
        let note = format!("{:.2}s", t0.elapsed().as_secs_f64());
        eprintln!(
            "[{}] phase {:<22} evals={:<8} nontrivial={:<7} known_excluded={} {} (enumerated)",
            self.id,
            name,
            stats.evaluations,
            stats.nontrivial.len(),
            stats.excluded_known,
            note
        );
        self.phases.push(PhaseReport { name: name.into(), stats, note });
    }

    /// Generator-health floor: class must make up at least `min_frac` of
    /// `of_class` in the named phase, else the run is a harness error.
    pub fn require_frac(&mut self, phase: &str, class: &str, of_class: &str, min_frac: f64) {
        if self.replay.is_some() || self.only_phase.is_some() {
            return;
        }
        let Some(p) = self.phases.iter().find(|p| p.name == phase) else {
            return;
        };
        if p.stats.frozen {
            return;
        }
        let a = p.stats.get(class) as f64;
        let b = p.stats.get(of_class) as f64;
        if b == 0.0 || a / b < min_frac {
            self.harness_error(format!(
                "generator health: phase {} class {} = {} of {} = {} (< {:.3})",
                phase, class, a, of_class, b, min_frac
            ));
        }
    }

    pub fn finish(mut self) -> i32 {
        if self.replay.is_some() && !self.replay_ran {
            self.harness_error("replay file names a phase this check does not have".into());
        }
        let wall = self.started.elapsed().as_secs_f64();
        let evaluations: u64 = self.phases.iter().map(|p| p.stats.evaluations).sum();
        let distinct: usize = self.phases.iter().map(|p| p.stats.nontrivial.len()).sum();
        let excluded: u64 = self.phases.iter().map(|p| p.stats.excluded_known).sum();
        let mut samples = vec![];
        let mut phases = serde_json::Map::new();
        for p in &self.phases {
            for s in p.stats.samples.iter() {
                samples.push(json!({"phase": p.name, "case": s}));
            }
            phases.insert(
                p.name.clone(),
                json!({
                    "evaluations": p.stats.evaluations,
                    "distinct_nontrivial": p.stats.nontrivial.len(),
                    "classes": p.stats.hist,
                    "excluded_known": p.stats.excluded_known,
                    "exhaustive": p.stats.exhaustive,
                    "wall": p.note,
                }),
            );
        }
        let all_exhaustive =
            !self.phases.is_empty() && self.phases.iter().all(|p| p.stats.exhaustive);
        let ev = json!({
            "property_id": self.id,
            "tier": self.tier.name(),
            "seed": self.seed,
            "level": "exploration",
            "coverage": {
                "evaluations": evaluations,
                "distinct_nontrivial": distinct,
                "rule": self.rule,
                "samples": samples,
                "exhaustive": all_exhaustive,
                "phases": phases,
                "excluded_known": excluded,
                "known_findings_hit": self.known_hits.iter().collect::<Vec<_>>(),
                "harness_errors": self.harness_errors,
                "libfuzzer": std::env::var("VERIF_FUZZ_SUMMARY").ok().and_then(|s| serde_json::from_str::<Value>(&s).ok()),
            },
            "assumptions": self.assumptions,
            "wall_s": wall,
            "violations": self.violations.len(),
        });
        if self.replay.is_none() && self.only_phase.is_none() {
            let dir = Path::new(VERIF_DIR).join("evidence");
            let _ = std::fs::create_dir_all(&dir);
            let path = dir.join(format!("{}.json", self.id));
            if let Err(e) = std::fs::write(&path, serde_json::to_string_pretty(&ev).unwrap()) {
                eprintln!("cannot write evidence: {}", e);
                return 2;
            }
        }
        eprintln!(
            "[{}] tier={} seed={} evaluations={} distinct_nontrivial={} violations={} wall={:.1}s",
            self.id,
            self.tier.name(),
            self.seed,
            evaluations,
            distinct,
            self.violations.len(),
            wall
        );
        // shut the runtime down without waiting for stuck tasks
        let Ctx { rt, violations, harness_errors, .. } = self;
        rt.shutdown_background();
        if !violations.is_empty() {
            1
        } else if !harness_errors.is_empty() {
            println!("INCONCLUSIVE: harness error(s): {}", harness_errors.join(" | "));
            2
        } else {
            0
        }
    }
}

pub fn truncate(s: &str, n: usize) -> String {
    if s.len() <= n {
        s.to_string()
    } else {
        let mut end = n;
        while !s.is_char_boundary(end) {
            end -= 1;
        }
        format!("{}…[{} bytes]", &s[..end], s.len())
    }
}

fn load_known() -> Vec<KnownEntry> {
    let path = Path::new(VERIF_DIR).join("known_findings.json");
    match std::fs::read_to_string(&path) {
        Ok(s) => match serde_json::from_str::<Value>(&s) {
            Ok(v) => {
                let arr = v.get("findings").cloned().unwrap_or(Value::Array(vec![]));
                serde_json::from_value(arr).unwrap_or_else(|e| {
                    eprintln!("known_findings.json malformed: {}", e);
                    std::process::exit(2);
                })
            }
            Err(e) => {
                eprintln!("known_findings.json malformed: {}", e);
                std::process::exit(2);
            }
        },
        Err(_) => vec![],
    }
}

/// Monotone index mapping (shrinks towards 0).
pub fn pick_idx(i: u16, len: usize) -> usize {
    if len == 0 {
        return 0;
    }
    ((i as usize) * len) >> 16
}

pub fn pick<'a, T>(i: u16, xs: &'a [T]) -> &'a T {
    &xs[pick_idx(i, xs.len())]
}

/// Install a watchdog: after `secs` the process prints INCONCLUSIVE and
/// exits with status 2 (never a violation).
pub fn watchdog(secs: u64, id: String) {
    std::thread::spawn(move || {
        std::thread::sleep(std::time::Duration::from_secs(secs));
        println!("INCONCLUSIVE: watchdog expired after {} s in check {}", secs, id);
        std::process::exit(2);
    });
}

thread_local! {
    pub static QUIET_PANICS: std::cell::Cell<u32> = const { std::cell::Cell::new(0) };
}

pub static MARKER_PANICS: std::sync::atomic::AtomicU64 = std::sync::atomic::AtomicU64::new(0);
pub static OTHER_PANICS: std::sync::Mutex<Vec<String>> = std::sync::Mutex::new(Vec::new());
pub const PANIC_MARKER: &str = "VERIF-MARKER-PANIC";

pub fn install_panic_hook() {
    std::panic::set_hook(Box::new(|info| {
        let msg = if let Some(s) = info.payload().downcast_ref::<&str>() {
            s.to_string()
        } else if let Some(s) = info.payload().downcast_ref::<String>() {
            s.clone()
        } else {
            "<non-string panic>".to_string()
        };
        if msg.contains(PANIC_MARKER) {
            MARKER_PANICS.fetch_add(1, std::sync::atomic::Ordering::SeqCst);
            return;
        }
        if QUIET_PANICS.with(|q| q.get()) > 0 {
            return;
        }
        let loc = info
            .location()
            .map(|l| format!("{}:{}", l.file(), l.line()))
            .unwrap_or_default();
        let line = format!("{} @ {}", msg, loc);
        if let Ok(mut v) = OTHER_PANICS.lock() {
            if v.len() < 50 {
                v.push(line.clone());
            }
        }
        eprintln!("PANIC: {}", truncate(&line, 600));
    }));
}

/// Run `f`, catching a panic and returning its message; the panic hook is
/// silenced for the duration on this thread.
/// Run a check closure so that a panic inside it (outside any `catch_quiet`, i.e. in harness code
/// that met something it did not expect from the code under test) becomes a reported failure
/// instead of killing the process.
pub fn guarded<C>(check: &impl Fn(&C, &mut Stats) -> Result<(), Failure>, case: &C, stats: &mut Stats) -> Result<(), Failure> {
    match std::panic::catch_unwind(std::panic::AssertUnwindSafe(|| check(case, stats))) {
        Ok(r) => r,
        Err(e) => {
            let msg = if let Some(s) = e.downcast_ref::<&str>() {
                s.to_string()
            } else if let Some(s) = e.downcast_ref::<String>() {
                s.clone()
            } else {
                "<non-string panic>".to_string()
            };
            Err(Failure::new("check-panicked", format!("the check itself panicked on this case: {}", msg)))
        }
    }
}

pub fn catch_quiet<T>(f: impl FnOnce() -> T) -> Result<T, String> {
    QUIET_PANICS.with(|q| q.set(q.get() + 1));
    let r = std::panic::catch_unwind(std::panic::AssertUnwindSafe(f));
    QUIET_PANICS.with(|q| q.set(q.get() - 1));
    r.map_err(|e| {
        if let Some(s) = e.downcast_ref::<&str>() {
            s.to_string()
        } else if let Some(s) = e.downcast_ref::<String>() {
            s.clone()
        } else {
            "<non-string panic>".to_string()
        }
    })
}
