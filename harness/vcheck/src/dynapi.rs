//! Building `ApiDescription`s from the route model at run time, through the
//! public API only.  Parameter schemas are injected the way a user would:
//! harness types with hand-written `JsonSchema` impls that read a
//! thread-local set just before `ApiEndpoint::new`.

use crate::core::catch_quiet;
use crate::model::*;
use dropshot::{
    ApiDescription, ApiEndpoint, HttpError, HttpResponseOk, Path, Query, RequestContext,
};
use schemars::schema::{
    ArrayValidation, InstanceType, ObjectValidation, Schema, SchemaObject, SingleOrVec,
};
use schemars::JsonSchema;
use serde::de::{MapAccess, Visitor};
use serde::{Deserialize, Deserializer, Serialize};
use std::cell::RefCell;
use std::collections::BTreeMap;
use std::sync::atomic::{AtomicU64, Ordering};

#[derive(Clone, Copy, Debug, PartialEq, Eq, Hash, Serialize, Deserialize)]
pub enum PKind {
    Str,
    Int,
    Bool,
    StrArray,
    IntArray,
    Object,
    /// array of objects (never acceptable)
    ObjArray,
    /// documented unit enum: oneOf of single-value string enums (scalar)
    DocEnum,
    /// oneOf of a string and an object (not scalar)
    OneOfMixed,
    /// reference to a named string enum (scalar)
    RefScalar,
    /// reference to a named object type (not scalar)
    RefObject,
    /// Option of a referenced scalar: allOf [ref] + nullable (scalar)
    NullableRef,
}

impl PKind {
    pub fn is_scalar(&self) -> bool {
        matches!(self, PKind::Str | PKind::Int | PKind::Bool | PKind::DocEnum | PKind::RefScalar | PKind::NullableRef)
    }
    fn schema(&self, gen: &mut schemars::gen::SchemaGenerator) -> Schema {
        let from_json = |v: serde_json::Value| -> Schema { serde_json::from_value(v).unwrap() };
        match self {
            PKind::DocEnum => {
                return from_json(serde_json::json!({"oneOf": [
                    {"description": "first", "type": "string", "enum": ["one"]},
                    {"description": "second", "type": "string", "enum": ["two"]}]}))
            }
            PKind::OneOfMixed => return from_json(serde_json::json!({"oneOf": [{"type": "string"}, {"type": "object", "properties": {"a": {"type": "string"}}}]})),
            PKind::RefScalar | PKind::NullableRef => {
                gen.definitions_mut().insert("VerifNamedEnum".into(), from_json(serde_json::json!({"type": "string", "enum": ["x", "y"]})));
                return if *self == PKind::RefScalar {
                    from_json(serde_json::json!({"$ref": "#/components/schemas/VerifNamedEnum"}))
                } else {
                    from_json(serde_json::json!({"allOf": [{"$ref": "#/components/schemas/VerifNamedEnum"}], "nullable": true}))
                };
            }
            PKind::RefObject => {
                gen.definitions_mut().insert("VerifNamedObject".into(), from_json(serde_json::json!({"type": "object", "properties": {"inner": {"type": "string"}}})));
                return from_json(serde_json::json!({"$ref": "#/components/schemas/VerifNamedObject"}));
            }
            _ => {}
        }
        fn ty(t: InstanceType) -> SchemaObject {
            SchemaObject {
                instance_type: Some(SingleOrVec::Single(Box::new(t))),
                ..Default::default()
            }
        }
        fn arr(item: SchemaObject) -> SchemaObject {
            let mut s = ty(InstanceType::Array);
            s.array = Some(Box::new(ArrayValidation {
                items: Some(SingleOrVec::Single(Box::new(Schema::Object(item)))),
                ..Default::default()
            }));
            s
        }
        fn obj() -> SchemaObject {
            let mut s = ty(InstanceType::Object);
            let mut o = ObjectValidation::default();
            o.properties.insert("inner".into(), Schema::Object(ty(InstanceType::String)));
            s.object = Some(Box::new(o));
            s
        }
        Schema::Object(match self {
            PKind::Str => ty(InstanceType::String),
            PKind::Int => {
                let mut s = ty(InstanceType::Integer);
                s.format = Some("int32".into());
                s
            }
            PKind::Bool => ty(InstanceType::Boolean),
            PKind::StrArray => arr(ty(InstanceType::String)),
            PKind::IntArray => arr(ty(InstanceType::Integer)),
            PKind::Object => obj(),
            PKind::ObjArray => arr(obj()),
            _ => unreachable!(),
        })
    }
}

pub type ParamSpec = Vec<(String, PKind)>;

fn object_schema(spec: &ParamSpec, gen: &mut schemars::gen::SchemaGenerator) -> Schema {
    let mut s = SchemaObject {
        instance_type: Some(SingleOrVec::Single(Box::new(InstanceType::Object))),
        ..Default::default()
    };
    let mut o = ObjectValidation::default();
    for (n, k) in spec {
        o.properties.insert(n.clone(), k.schema(gen));
        o.required.insert(n.clone());
    }
    s.object = Some(Box::new(o));
    Schema::Object(s)
}

thread_local! {
    static PATH_SPEC: RefCell<ParamSpec> = const { RefCell::new(Vec::new()) };
    static QUERY_SPEC: RefCell<ParamSpec> = const { RefCell::new(Vec::new()) };
}

/// Wildcard variables are recognised on the deserialisation side by name:
/// the harness always names them with this prefix.
pub const WILD_PREFIX: &str = "w";

#[derive(Debug, Clone, Serialize)]
pub struct DynPath(pub BTreeMap<String, Bound>);

impl JsonSchema for DynPath {
    fn schema_name() -> String {
        "DynPath".into()
    }
    fn is_referenceable() -> bool {
        false
    }
    fn json_schema(g: &mut schemars::gen::SchemaGenerator) -> Schema {
        PATH_SPEC.with(|s| object_schema(&s.borrow(), g))
    }
}

impl<'de> Deserialize<'de> for DynPath {
    fn deserialize<D: Deserializer<'de>>(d: D) -> Result<Self, D::Error> {
        struct V;
        impl<'de> Visitor<'de> for V {
            type Value = DynPath;
            fn expecting(&self, f: &mut std::fmt::Formatter) -> std::fmt::Result {
                f.write_str("a map of path variables")
            }
            fn visit_map<A: MapAccess<'de>>(self, mut m: A) -> Result<DynPath, A::Error> {
                let mut out = BTreeMap::new();
                while let Some(k) = m.next_key::<String>()? {
                    if k.starts_with(WILD_PREFIX) {
                        out.insert(k, Bound::Many(m.next_value::<Vec<String>>()?));
                    } else {
                        out.insert(k, Bound::One(m.next_value::<String>()?));
                    }
                }
                Ok(DynPath(out))
            }
        }
        d.deserialize_map(V)
    }
}

#[derive(Debug, Clone, Serialize)]
pub struct DynQuery(pub BTreeMap<String, String>);

impl JsonSchema for DynQuery {
    fn schema_name() -> String {
        "DynQuery".into()
    }
    fn is_referenceable() -> bool {
        false
    }
    fn json_schema(g: &mut schemars::gen::SchemaGenerator) -> Schema {
        QUERY_SPEC.with(|s| object_schema(&s.borrow(), g))
    }
}

impl<'de> Deserialize<'de> for DynQuery {
    fn deserialize<D: Deserializer<'de>>(d: D) -> Result<Self, D::Error> {
        let m = BTreeMap::<String, String>::deserialize(d)?;
        Ok(DynQuery(m))
    }
}

#[derive(Default)]
pub struct DynCtx {
    pub entered: AtomicU64,
}

pub async fn dyn_handler(
    rqctx: RequestContext<DynCtx>,
    path: Path<DynPath>,
) -> Result<HttpResponseOk<serde_json::Value>, HttpError> {
    rqctx.context().entered.fetch_add(1, Ordering::SeqCst);
    Ok(HttpResponseOk(serde_json::json!({
        "op": rqctx.endpoint.operation_id,
        "vars": path.into_inner().0,
    })))
}

pub async fn dyn_handler_q(
    rqctx: RequestContext<DynCtx>,
    path: Path<DynPath>,
    _q: Query<DynQuery>,
) -> Result<HttpResponseOk<serde_json::Value>, HttpError> {
    rqctx.context().entered.fetch_add(1, Ordering::SeqCst);
    Ok(HttpResponseOk(serde_json::json!({
        "op": rqctx.endpoint.operation_id,
        "vars": path.into_inner().0,
    })))
}

pub fn method_of(m: &str) -> http::Method {
    http::Method::from_bytes(m.as_bytes()).unwrap()
}

/// default path parameter spec for an endpoint: one string per variable,
/// string array for the wildcard
pub fn default_path_spec(e: &MEndpoint) -> ParamSpec {
    e.var_names()
        .into_iter()
        .map(|(n, wild)| (n, if wild { PKind::StrArray } else { PKind::Str }))
        .collect()
}

/// Build an `ApiEndpoint` for a model endpoint.  May panic inside dropshot
/// (e.g. malformed template); callers that generate such templates wrap it.
pub fn make_endpoint(
    e: &MEndpoint,
    path_spec: &ParamSpec,
    query_spec: Option<&ParamSpec>,
    tags: &[String],
) -> ApiEndpoint<DynCtx> {
    PATH_SPEC.with(|s| *s.borrow_mut() = path_spec.clone());
    let mut ep = match query_spec {
        None => ApiEndpoint::new(
            e.op.clone(),
            dyn_handler,
            method_of(&e.method),
            "application/json",
            &e.template(),
            e.range.to_dropshot(),
        ),
        Some(q) => {
            QUERY_SPEC.with(|s| *s.borrow_mut() = q.clone());
            ApiEndpoint::new(
                e.op.clone(),
                dyn_handler_q,
                method_of(&e.method),
                "application/json",
                &e.template(),
                e.range.to_dropshot(),
            )
        }
    }
    .visible(e.visible);
    for t in tags {
        ep = ep.tag(t);
    }
    ep
}

#[derive(Debug, Clone, PartialEq, Eq)]
pub enum RegOutcome {
    Accepted,
    RejectedErr(String),
    RejectedPanic(String),
}

impl RegOutcome {
    pub fn accepted(&self) -> bool {
        matches!(self, RegOutcome::Accepted)
    }
}

/// register one endpoint, mapping Err and panic to outcomes
pub fn try_register(
    api: &mut ApiDescription<DynCtx>,
    e: &MEndpoint,
    path_spec: &ParamSpec,
    query_spec: Option<&ParamSpec>,
    tags: &[String],
) -> RegOutcome {
    match catch_quiet(|| {
        let ep = make_endpoint(e, path_spec, query_spec, tags);
        api.register(ep)
    }) {
        Ok(Ok(())) => RegOutcome::Accepted,
        Ok(Err(err)) => RegOutcome::RejectedErr(err.message().to_string()),
        Err(p) => RegOutcome::RejectedPanic(p),
    }
}

/// register a whole table that the model says is conflict free; any
/// rejection is returned as an error string naming the endpoint
pub fn build_api(table: &[MEndpoint]) -> Result<ApiDescription<DynCtx>, String> {
    let mut api = ApiDescription::new();
    for e in table {
        match try_register(&mut api, e, &default_path_spec(e), None, &[]) {
            RegOutcome::Accepted => {}
            o => return Err(format!("{} {} [{}]: {:?}", e.method, e.template(), e.range.text(), o)),
        }
    }
    Ok(api)
}

/// mirror of dropshot's (unnameable) `VariableValue`, used only for its
/// derived `Debug` output, which is by construction identical in format.
#[derive(Debug)]
#[allow(dead_code)]
enum VariableValue {
    String(String),
    Components(Vec<String>),
}

pub fn bound_debug(b: &Bound) -> String {
    match b {
        Bound::One(s) => format!("{:?}", VariableValue::String(s.clone())),
        Bound::Many(v) => format!("{:?}", VariableValue::Components(v.clone())),
    }
}

#[derive(Debug, Clone, PartialEq, Eq)]
pub enum LookupOut {
    Found {
        op: String,
        /// variable name -> Debug rendering of the value
        vars: BTreeMap<String, String>,
        max_bytes: Option<usize>,
        content_type: String,
    },
    Miss {
        status: u16,
        allow: Vec<String>,
    },
}

pub type LookupFn = Box<dyn Fn(&str, &str, Option<&MVer>) -> LookupOut>;

/// Turn an API into a lookup closure (the router type is not nameable from
/// outside the crate, so it lives inside the closure).
pub fn into_lookup<C: dropshot::ServerContext>(api: ApiDescription<C>) -> LookupFn {
    let router = api.into_router();
    Box::new(move |method: &str, path: &str, v: Option<&MVer>| {
        let m = method_of(method);
        let sv = v.map(|v| v.semver());
        match router.lookup_route(&m, path.into(), sv.as_ref()) {
            Ok(r) => LookupOut::Found {
                op: r.endpoint.operation_id.clone(),
                vars: r
                    .endpoint
                    .variables
                    .iter()
                    .map(|(k, v)| (k.clone(), format!("{:?}", v)))
                    .collect(),
                max_bytes: r.endpoint.request_body_max_bytes,
                content_type: r.endpoint.body_content_type.mime_type().to_string(),
            },
            Err(e) => LookupOut::Miss {
                status: e.status_code.as_u16(),
                allow: e
                    .headers
                    .as_ref()
                    .map(|h| {
                        h.get_all(http::header::ALLOW)
                            .iter()
                            .flat_map(|v| {
                                v.to_str()
                                    .unwrap_or("<non-ascii>")
                                    .split(',')
                                    .map(|s| s.trim().to_string())
                                    .collect::<Vec<_>>()
                            })
                            .collect()
                    })
                    .unwrap_or_default(),
            },
        }
    })
}

pub fn discard_log() -> slog::Logger {
    slog::Logger::root(slog::Discard, slog::o!())
}

/// start a live server for an API
pub fn start_server<C: dropshot::ServerContext>(
    api: ApiDescription<C>,
    ctx: C,
    config: dropshot::ConfigDropshot,
    policy: Option<dropshot::VersionPolicy>,
) -> Result<dropshot::HttpServer<C>, String> {
    let mut b = dropshot::ServerBuilder::new(api, ctx, discard_log()).config(config);
    if let Some(p) = policy {
        b = b.version_policy(p);
    }
    b.start().map_err(|e| format!("server start: {}", e))
}

/// start a live HTTPS server (self-signed certificate) for an API
/// the same servers through the older constructors `HttpServerStarter::new` / `new_with_tls`
#[allow(deprecated)]
pub fn start_server_legacy<C: dropshot::ServerContext>(api: ApiDescription<C>, ctx: C, config: dropshot::ConfigDropshot, tls: bool) -> Result<dropshot::HttpServer<C>, String> {
    let log = discard_log();
    let starter = if tls {
        dropshot::HttpServerStarter::new_with_tls(&config, api, ctx, &log, Some(crate::tls::server_tls_config()))
    } else {
        dropshot::HttpServerStarter::new(&config, api, ctx, &log)
    }
    .map_err(|e| format!("server start: {}", e))?;
    Ok(starter.start())
}
pub fn start_server_tls<C: dropshot::ServerContext>(api: ApiDescription<C>, ctx: C, config: dropshot::ConfigDropshot) -> Result<dropshot::HttpServer<C>, String> {
    dropshot::ServerBuilder::new(api, ctx, discard_log())
        .config(config)
        .tls(Some(crate::tls::server_tls_config()))
        .start()
        .map_err(|e| format!("server start: {}", e))
}
