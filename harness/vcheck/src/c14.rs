//! C14 — page tokens round-trip, malformed tokens are refused, limits are clamped.

use crate::c09::any_string;
use crate::core::*;
use crate::dynapi::start_server;
use crate::encoders::{enc_component, Style};
use crate::http1;
use crate::pagapi::*;
use crate::{ensure, fail};
use dropshot::{PaginationOrder, PaginationParams, ResultsPage, WhichPage};
use proptest::prelude::*;
use serde::{Deserialize, Serialize};
use serde_json::{json, Value};
use std::time::Duration;

pub const MAX_TOKEN: usize = 512;

// ---- own base64url (RFC 4648 section 5, with padding) ------------------------

const ALPHABET: &[u8; 64] = b"ABCDEFGHIJKLMNOPQRSTUVWXYZabcdefghijklmnopqrstuvwxyz0123456789-_";

pub fn b64url_encode(data: &[u8]) -> String {
    let mut out = String::new();
    for chunk in data.chunks(3) {
        let b = [chunk[0], *chunk.get(1).unwrap_or(&0), *chunk.get(2).unwrap_or(&0)];
        let n = ((b[0] as u32) << 16) | ((b[1] as u32) << 8) | b[2] as u32;
        out.push(ALPHABET[(n >> 18) as usize & 63] as char);
        out.push(ALPHABET[(n >> 12) as usize & 63] as char);
        if chunk.len() > 1 {
            out.push(ALPHABET[(n >> 6) as usize & 63] as char);
        } else {
            out.push('=');
        }
        if chunk.len() > 2 {
            out.push(ALPHABET[n as usize & 63] as char);
        } else {
            out.push('=');
        }
    }
    out
}

/// lenient decode: alphabet characters, optional '=' only at the end,
/// trailing bits ignored.  None if a character is outside the alphabet.
pub fn b64url_decode_lenient(s: &str) -> Option<Vec<u8>> {
    let t = s.trim_end_matches('=');
    let mut bits: u32 = 0;
    let mut nbits = 0;
    let mut out = vec![];
    for c in t.bytes() {
        let v = ALPHABET.iter().position(|a| *a == c)? as u32;
        bits = (bits << 6) | v;
        nbits += 6;
        if nbits >= 8 {
            nbits -= 8;
            out.push((bits >> nbits) as u8);
            bits &= (1 << nbits) - 1;
        }
    }
    Some(out)
}

// ---- selector types ----------------------------------------------------------

#[derive(Clone, Debug, PartialEq, Serialize, Deserialize)]
pub enum SelKind {
    Alpha,
    #[serde(rename = "beta-gamma")]
    BetaGamma,
}

#[derive(Clone, Debug, PartialEq, Serialize, Deserialize)]
pub struct TypedSel {
    pub name: String,
    pub n: u64,
    pub i: i64,
    pub flag: bool,
    pub kind: SelKind,
    pub opt: Option<String>,
    pub list: Vec<String>,
    pub inner: Option<Box<TypedSel>>,
}

#[derive(Clone, Debug, Deserialize, Serialize, schemars::JsonSchema)]
pub struct TScan {
    pub min: Option<u32>,
    pub sort: Option<PaginationOrder>,
    pub name: Option<String>,
}

#[derive(Clone, Debug, Serialize, Deserialize)]
pub enum Sel {
    Typed(TypedSel),
    /// free-form JSON selector
    Json(Value),
}

/// strings whose lengths push the token towards the 512-character bound
fn sized_string() -> impl Strategy<Value = String> {
    prop_oneof![
        8 => any_string(),
        1 => (300usize..380, prop::sample::select(vec!['a', 'é', '日', '🦀', '"', '\u{0}'])).prop_map(|(n, c)| {
            let w = match c { '"' | '\u{0}' => if c == '"' { 2 } else { 6 }, c => c.len_utf8() };
            std::iter::repeat(c).take(n / w).collect()
        }),
        1 => (340usize..362).prop_map(|n| "x".repeat(n)),
    ]
}

fn typed_sel() -> impl Strategy<Value = TypedSel> {
    let leaf = (
        sized_string(),
        prop_oneof![any::<u64>(), Just(u64::MAX)],
        prop_oneof![any::<i64>(), Just(i64::MIN)],
        any::<bool>(),
        prop_oneof![Just(SelKind::Alpha), Just(SelKind::BetaGamma)],
        proptest::option::of(any_string()),
        proptest::collection::vec(any_string(), 0..3),
    )
        .prop_map(|(name, n, i, flag, kind, opt, list)| TypedSel { name, n, i, flag, kind, opt, list, inner: None });
    leaf.prop_recursive(2, 3, 1, |inner| {
        (inner.clone(), proptest::option::of(inner)).prop_map(|(mut a, b)| {
            a.inner = b.map(Box::new);
            a
        })
    })
}

fn json_sel() -> impl Strategy<Value = Value> {
    let leaf = prop_oneof![
        Just(Value::Null),
        any::<bool>().prop_map(Value::Bool),
        any::<i64>().prop_map(|n| json!(n)),
        any::<u64>().prop_map(|n| json!(n)),
        sized_string().prop_map(Value::String),
    ];
    leaf.prop_recursive(3, 12, 4, |inner| {
        prop_oneof![
            proptest::collection::vec(inner.clone(), 0..4).prop_map(Value::Array),
            proptest::collection::vec((any_string(), inner), 0..4).prop_map(|kv| Value::Object(kv.into_iter().collect())),
        ]
    })
}

fn sel_strategy() -> impl Strategy<Value = Sel> {
    prop_oneof![typed_sel().prop_map(Sel::Typed), json_sel().prop_map(Sel::Json)]
}

// ---- issuing and accepting through the public API ----------------------------

fn issue<S: Serialize + Clone>(sel: &S) -> Result<Option<String>, String> {
    match catch_quiet(|| ResultsPage::new(vec![0u8], &(), |_: &u8, _: &()| sel.clone())) {
        Err(p) => Err(format!("issuing panicked: {}", p)),
        Ok(Err(_)) => Ok(None), // refused to issue: allowed, nothing was issued
        Ok(Ok(page)) => match page.next_page {
            Some(t) => Ok(Some(t)),
            // a non-empty page without a token: nothing was issued, so there is nothing for this
            // property to judge (that a non-empty page carries a token is C15's statement)
            None => Ok(None),
        },
    }
}

enum Accept<S> {
    Next(S),
    First,
    Refused(String),
    Panicked(String),
}

fn accept_query<S: serde::de::DeserializeOwned + Serialize>(query: &str) -> Accept<S> {
    match catch_quiet(|| serde_urlencoded::from_str::<PaginationParams<TScan, S>>(query)) {
        Err(p) => Accept::Panicked(p),
        Ok(Err(e)) => Accept::Refused(e.to_string()),
        Ok(Ok(p)) => match p.page {
            WhichPage::Next(s) => Accept::Next(s),
            WhichPage::First(_) => Accept::First,
        },
    }
}

fn token_query(token: &str, st: &mut Style) -> String {
    format!("page_token={}", enc_component(token, st, false))
}

/// reference decision for an arbitrary token string: Some(selector JSON) if a
/// lenient decoder finds a v1 token in it
fn reference_decode(token: &str) -> Option<Value> {
    if token.len() > MAX_TOKEN {
        return None;
    }
    let bytes = b64url_decode_lenient(token)?;
    let v: Value = serde_json::from_slice(&bytes).ok()?;
    let o = v.as_object()?;
    if o.get("v") != Some(&json!("v1")) {
        return None;
    }
    o.get("page_start").cloned()
}

// ---- phase 1: round trip -------------------------------------------------------

#[derive(Clone, Debug, Serialize, Deserialize)]
struct RtCase {
    sel: Sel,
    /// when set: pad the selector so that the token comes out about this long
    target_len: Option<u16>,
    style: u64,
    /// extra scan parameters sent along with the token (token dominates)
    extra: Vec<(u8, String)>,
    limit: Option<u32>,
}

fn rt_case() -> impl Strategy<Value = RtCase> {
    (
        sel_strategy(),
        prop_oneof![2 => Just(None), 1 => (440u16..560).prop_map(Some), 1 => (500u16..520).prop_map(Some)],
        any::<u64>(),
        proptest::collection::vec((0u8..4, prop_oneof![any_string(), Just("abc".to_string()), Just("-1".to_string()), Just("7".to_string())]), 0..4),
        proptest::option::of(1u32..=u32::MAX),
    )
        .prop_map(|(sel, target_len, style, extra, limit)| RtCase { sel, target_len, style, extra, limit })
}

fn check_rt_generic<S>(sel: &S, c: &RtCase, st: &mut Stats) -> Result<(), Failure>
where
    S: Serialize + serde::de::DeserializeOwned + Clone + PartialEq + std::fmt::Debug,
{
    let mut style = Style(c.style);
    st.eval();
    let token = match issue(sel) {
        Err(p) => fail!("issue-panic", "{}", p),
        Ok(None) => {
            st.count("not_issued_too_large");
            // the framework may refuse to issue only when the token really
            // would be over the bound
            let own = b64url_encode(&serde_json::to_vec(&json!({"v": "v1", "page_start": sel})).unwrap());
            ensure!(own.len() > MAX_TOKEN - 8, "issue-refused-small-token", "refused to issue a token that would be {} characters", own.len());
            return Ok(());
        }
        Ok(Some(t)) => t,
    };
    st.count("issued");
    let near = token.len() + 16 >= MAX_TOKEN;
    if near {
        st.count("issued_near_bound");
    }
    if near || !token.is_empty() && serde_json::to_string(sel).map(|s| !s.is_ascii()).unwrap_or(false) {
        st.nontrivial(hash_str(&token));
    }
    ensure!(token.len() <= MAX_TOKEN, "issued-token-over-bound", "issued a token of {} characters", token.len());
    // the token must be exactly what an independent encoder produces
    // (URL-safe alphabet; not asserted byte for byte, only decodability)
    let refsel = reference_decode(&token);
    ensure!(
        refsel == Some(serde_json::to_value(sel).unwrap()),
        "issued-token-not-v1",
        "issued token {} does not decode (independent decoder) to the selector: {:?}",
        token,
        refsel
    );
    // 1. token alone
    let q = token_query(&token, &mut style);
    match accept_query::<S>(&q) {
        Accept::Next(s2) => ensure!(&s2 == sel, "selector-differs", "issued for {:?}, accepted back as {:?}", sel, s2),
        Accept::First => fail!("token-ignored", "query {:?} was treated as a first page", truncate(&q, 200)),
        Accept::Refused(e) => fail!(
            "issued-token-refused",
            "token of {} characters issued by the framework for {:?} is refused: {}",
            token.len(),
            truncate(&format!("{:?}", sel), 300),
            e
        ),
        Accept::Panicked(p) => fail!("accept-panic", "accepting an issued token panicked: {}", p),
    }
    // 2. token dominates other scan parameters (including ill-typed ones)
    if !c.extra.is_empty() || c.limit.is_some() {
        let mut pairs = vec![q.clone()];
        let mut used = std::collections::BTreeSet::new();
        // half of the cases may repeat a scan parameter: with a token present those are "other scan
        // parameters" like any other and are ignored, repeated or not
        let allow_repeats = style.coin();
        for (k, v) in &c.extra {
            let name = ["min", "sort", "name", "unknown"][(*k as usize) % 4];
            if used.insert(name) || allow_repeats {
                pairs.push(format!("{}={}", name, enc_component(v, &mut style, true)));
            }
        }
        if pairs.len() > used.len() + 1 {
            st.count("token_with_repeated_scan_param");
        }
        if let Some(l) = c.limit {
            pairs.push(format!("limit={}", l));
        }
        style.shuffle(&mut pairs);
        let q2 = pairs.join("&");
        st.count("token_with_scan_params");
        match accept_query::<S>(&q2) {
            Accept::Next(s2) => ensure!(&s2 == sel, "selector-differs", "with scan params: issued for {:?}, accepted back as {:?}", sel, s2),
            Accept::First => fail!("token-ignored", "query {:?} was treated as a first page", truncate(&q2, 300)),
            Accept::Refused(e) => fail!("token-does-not-dominate", "query {:?}: other scan parameters must be ignored when a token is present, but: {}", truncate(&q2, 300), e),
            Accept::Panicked(p) => fail!("accept-panic", "panicked: {}", p),
        }
    }
    st.sample(|| json!({"selector": truncate(&format!("{:?}", sel), 200), "token_len": token.len()}));
    Ok(())
}

fn own_token_len<S: Serialize>(sel: &S) -> usize {
    b64url_encode(&serde_json::to_vec(&json!({"v": "v1", "page_start": sel})).unwrap()).len()
}

/// number of padding characters so that the token is about `target` long
fn pad_for(base_len: usize, target: u16) -> usize {
    // token length is 4*ceil(json/3); each ASCII pad character adds one JSON byte
    let want_json = (target as usize) * 3 / 4;
    let have_json = base_len * 3 / 4;
    want_json.saturating_sub(have_json)
}

fn check_rt(c: &RtCase, st: &mut Stats) -> Result<(), Failure> {
    match &c.sel {
        Sel::Typed(t) => {
            let mut t = t.clone();
            if let Some(target) = c.target_len {
                let k = pad_for(own_token_len(&t), target);
                t.name.push_str(&"x".repeat(k));
            }
            check_rt_generic(&t, c, st)
        }
        Sel::Json(v) => {
            let mut v = v.clone();
            if let Some(target) = c.target_len {
                let wrapped = json!({"p": "", "v": v});
                let k = pad_for(own_token_len(&wrapped), target);
                v = json!({"p": "y".repeat(k), "v": v});
            }
            check_rt_generic(&v, c, st)
        }
    }
}

// ---- phase 2: constructed-invalid tokens and mutations --------------------------

#[derive(Clone, Debug, Serialize, Deserialize)]
enum BadToken {
    TooLong { pad: u16 },
    BadChar { at: u16, ch: u8 },
    NotJson { bytes: Vec<u8> },
    MissingV,
    MissingPageStart,
    WrongVersion(u8),
    WrongShape(u8),
    TrailingGarbage,
    Empty,
    /// free mutation of a valid token (not necessarily invalid)
    Mutate(Vec<(u8, u16, u8)>),
}

#[derive(Clone, Debug, Serialize, Deserialize)]
struct BadCase {
    sel: TypedSel,
    bad: BadToken,
    style: u64,
}

fn bad_case() -> impl Strategy<Value = BadCase> {
    let bad = prop_oneof![
        2 => (0u16..400).prop_map(|pad| BadToken::TooLong { pad }),
        2 => (any::<u16>(), 0u8..8).prop_map(|(at, ch)| BadToken::BadChar { at, ch }),
        2 => proptest::collection::vec(any::<u8>(), 0..60).prop_map(|bytes| BadToken::NotJson { bytes }),
        1 => Just(BadToken::MissingV),
        1 => Just(BadToken::MissingPageStart),
        1 => (0u8..6).prop_map(BadToken::WrongVersion),
        2 => (0u8..8).prop_map(BadToken::WrongShape),
        1 => Just(BadToken::TrailingGarbage),
        1 => Just(BadToken::Empty),
        6 => proptest::collection::vec((0u8..8, any::<u16>(), any::<u8>()), 1..4).prop_map(BadToken::Mutate),
    ];
    (typed_sel(), bad, any::<u64>()).prop_map(|(mut sel, bad, style)| {
        // keep the base token comfortably valid
        if sel.name.len() > 60 {
            sel.name = sel.name.chars().take(20).collect();
        }
        // a stretch of plain letters so that some mutations stay inside a string
        sel.name = format!("abcdefghijklmnopqrstuvwxyzabcdefghijkl{}", sel.name);
        sel.inner = None;
        sel.list.truncate(1);
        BadCase { sel, bad, style }
    })
}

/// returns (token, constructed_invalid)
fn make_bad_token(c: &BadCase) -> (String, bool, &'static str) {
    let sel_json = serde_json::to_value(&c.sel).unwrap();
    let good = b64url_encode(&serde_json::to_vec(&json!({"v": "v1", "page_start": sel_json})).unwrap());
    match &c.bad {
        BadToken::TooLong { pad } => {
            let mut s = c.sel.clone();
            s.name = "p".repeat(330 + *pad as usize);
            let t = b64url_encode(&serde_json::to_vec(&json!({"v": "v1", "page_start": s})).unwrap());
            let over = t.len() > MAX_TOKEN;
            (t, over, "too-long")
        }
        BadToken::BadChar { at, ch } => {
            let mut b: Vec<char> = good.chars().collect();
            let i = pick_idx(*at, b.len());
            b[i] = ['+', '/', '!', '*', '.', 'é', ' ', '%'][*ch as usize % 8];
            (b.into_iter().collect(), true, "bad-char")
        }
        BadToken::NotJson { bytes } => {
            let mut v = bytes.clone();
            // make sure it is not JSON: start with a byte no JSON text starts with
            v.insert(0, b'#');
            (b64url_encode(&v), true, "not-json")
        }
        BadToken::MissingV => (b64url_encode(&serde_json::to_vec(&json!({"page_start": sel_json})).unwrap()), true, "missing-v"),
        BadToken::MissingPageStart => (b64url_encode(&serde_json::to_vec(&json!({"v": "v1"})).unwrap()), true, "missing-page-start"),
        BadToken::WrongVersion(k) => {
            let v = [json!("v2"), json!("V1"), json!(1), json!("v1 "), json!(null), json!(["v1"])][*k as usize % 6].clone();
            (b64url_encode(&serde_json::to_vec(&json!({"v": v, "page_start": sel_json})).unwrap()), true, "wrong-version")
        }
        BadToken::WrongShape(k) => {
            let mut o = sel_json.as_object().unwrap().clone();
            let ps = match k % 8 {
                0 => json!(5),
                1 => json!("string"),
                2 => json!([1, 2]),
                3 => json!(null),
                4 => {
                    o.remove("name");
                    Value::Object(o)
                }
                5 => {
                    o.insert("n".into(), json!("not a number"));
                    Value::Object(o)
                }
                6 => {
                    o.insert("kind".into(), json!("Gamma"));
                    Value::Object(o)
                }
                _ => {
                    o.insert("n".into(), json!(-1));
                    Value::Object(o)
                }
            };
            (b64url_encode(&serde_json::to_vec(&json!({"v": "v1", "page_start": ps})).unwrap()), true, "wrong-shape")
        }
        BadToken::TrailingGarbage => {
            let mut v = serde_json::to_vec(&json!({"v": "v1", "page_start": sel_json})).unwrap();
            v.extend_from_slice(b"}x");
            (b64url_encode(&v), true, "trailing-garbage")
        }
        BadToken::Empty => (String::new(), true, "empty"),
        BadToken::Mutate(ops) => {
            let mut b: Vec<u8> = good.clone().into_bytes();
            for (op, at, val) in ops {
                if b.is_empty() {
                    break;
                }
                let i = pick_idx(*at, b.len());
                match op % 8 {
                    6 | 7 => {
                        // replace an aligned quad by the encoding of three letters
                        let q = (i / 4) * 4;
                        if q + 4 <= b.len() {
                            let l = b'a' + (val % 26);
                            let enc = b64url_encode(&[l, l, l]);
                            b[q..q + 4].copy_from_slice(enc.as_bytes());
                        }
                    }
                    0 => b[i] ^= 1 << (val % 7),
                    1 => {
                        b.remove(i);
                    }
                    2 => b.insert(i, ALPHABET[*val as usize % 64]),
                    3 => b.truncate(i),
                    4 => b[i] = ALPHABET[*val as usize % 64],
                    _ => b[i] = b"+/=.%&"[*val as usize % 6],
                }
            }
            (String::from_utf8_lossy(&b).to_string(), false, "mutation")
        }
    }
}

fn check_bad(c: &BadCase, st: &mut Stats) -> Result<(), Failure> {
    let (token, invalid, class) = make_bad_token(c);
    let mut style = Style(c.style);
    let q = token_query(&token, &mut style);
    st.eval();
    st.count(&format!("class:{}", class));
    st.nontrivial(hash_str(&token));
    let out = accept_query::<TypedSel>(&q);
    match (&out, invalid) {
        (Accept::Panicked(p), _) => fail!(format!("token-panic:{}", class), "token {:?} ({}): panicked: {}", truncate(&token, 200), class, p),
        (Accept::Refused(_), _) => {
            st.count("refused");
        }
        (Accept::First, _) => fail!("token-ignored", "query with token {:?} was treated as a first page", truncate(&token, 100)),
        (Accept::Next(s), true) => fail!(
            format!("invalid-token-accepted:{}", class),
            "constructed-invalid token ({}, {} characters) {:?} was accepted as {:?}",
            class,
            token.len(),
            truncate(&token, 700),
            truncate(&format!("{:?}", s), 200)
        ),
        (Accept::Next(s), false) => {
            st.count("mutation_accepted");
            if class == "too-long" {
                // not over the bound after all: must equal the padded selector
                return Ok(());
            }
            let want = reference_decode(&token).and_then(|v| serde_json::from_value::<TypedSel>(v).ok());
            ensure!(
                want.as_ref() == Some(s),
                "mutated-token-accepted-differently",
                "mutated token {:?} was accepted as {:?} but a lenient reference decoder yields {:?}",
                truncate(&token, 700),
                s,
                want
            );
        }
    }
    st.sample(|| json!({"class": class, "token": truncate(&token, 120), "invalid_by_construction": invalid}));
    Ok(())
}

/// judge one token string (libFuzzer target and its replays): never a panic;
/// over-long tokens and tokens with characters outside the URL-safe
/// alphabet are invalid by construction; anything accepted must be what an
/// independent lenient decoder finds.
pub fn judge_token_string(token: &str) -> Result<(), Failure> {
    let mut style = Style(1);
    let q = token_query(token, &mut style);
    let invalid = token.len() > MAX_TOKEN || token.bytes().any(|b| !(ALPHABET.contains(&b) || b == b'='));
    match accept_query::<TypedSel>(&q) {
        Accept::Panicked(p) => fail!("token-panic:fuzz", "token {:?}: panicked: {}", truncate(token, 200), p),
        Accept::Refused(_) => Ok(()),
        Accept::First => fail!("token-ignored", "token {:?} was treated as a first page", truncate(token, 100)),
        Accept::Next(s) => {
            ensure!(!invalid, "invalid-token-accepted:fuzz", "token {:?} ({} characters) is invalid by construction but was accepted", truncate(token, 700), token.len());
            let want = reference_decode(token).and_then(|v| serde_json::from_value::<TypedSel>(v).ok());
            ensure!(want.as_ref() == Some(&s), "mutated-token-accepted-differently", "token {:?} accepted as {:?}, reference decoder yields {:?}", truncate(token, 700), s, want);
            Ok(())
        }
    }
}

#[derive(Clone, Debug, Serialize, Deserialize)]
pub struct FuzzInput {
    pub bytes: Vec<u8>,
}

fn check_fuzz_input(c: &FuzzInput, st: &mut Stats) -> Result<(), Failure> {
    st.eval();
    st.nontrivial(hash_of(&c.bytes));
    st.nontrivial(1);
    match std::str::from_utf8(&c.bytes) {
        Ok(s) => judge_token_string(s),
        Err(_) => Ok(()),
    }
}

// ---- phase 3: live (status codes for tokens, limit clamp) ------------------------

#[derive(Clone, Debug, Serialize, Deserialize)]
enum LimitText {
    Absent,
    Valid(u32),
    Edge(u8),
    Invalid(u8),
    InvalidText(String),
    /// a whole number above u32::MAX: capped at the server maximum or refused, never anything else
    Huge(u64),
}

#[derive(Clone, Debug, Serialize, Deserialize)]
enum LiveCase {
    Limit(LimitText, bool),
    Token(BadCase),
    GoodToken { n: u32, last: u32, pad: Option<String>, style: u64 },
}

fn live_case() -> impl Strategy<Value = LiveCase> {
    let lt = prop_oneof![
        1 => Just(LimitText::Absent),
        4 => (1u32..=u32::MAX).prop_map(LimitText::Valid),
        3 => (0u8..8).prop_map(LimitText::Edge),
        3 => (0u8..12).prop_map(LimitText::Invalid),
        2 => "[a-zA-Z.,+ -]{1,6}".prop_map(LimitText::InvalidText),
        2 => prop_oneof![(1u64 << 32) + 1..(1u64 << 32) + 20000, (1u64 << 32) + 1..u64::MAX, Just(u64::MAX), Just((1u64 << 33) + 7)].prop_map(LimitText::Huge),
    ];
    prop_oneof![
        4 => (lt, any::<bool>()).prop_map(|(l, t)| LiveCase::Limit(l, t)),
        3 => bad_case().prop_map(LiveCase::Token),
        1 => (1u32..1000, 0u32..1000, proptest::option::of(any_string()), any::<u64>()).prop_map(|(n, last, pad, style)| LiveCase::GoodToken { n, last, pad: pad.map(|p| p.chars().take(30).collect()), style }),
    ]
}

const EDGE_LIMITS: [u32; 8] = [1, 2, 99, 100, 9999, 10000, 10001, u32::MAX];
const INVALID_LIMITS: [&str; 12] = ["0", "-1", "-100", "abc", "", "1.5", "1e3", "4294967296", "99999999999999999999", "0x10", "１０", "+"];

fn check_live(addr: std::net::SocketAddr, entered: &dyn Fn() -> u64, rt: &tokio::runtime::Runtime, c: &LiveCase, st: &mut Stats) -> Result<(), Failure> {
    let get = |target: String| -> Result<http1::RawResp, Failure> {
        rt.block_on(http1::oneshot(addr, &http1::build_request("GET", &target, &[], None), false, Duration::from_secs(10)))
            .map_err(|e| Failure::new("no-response", format!("GET {}: {}", truncate(&target, 200), e)))
    };
    st.eval();
    match c {
        LiveCase::Limit(LimitText::Huge(n), with_token) => {
            let mut st2 = Style(7);
            let mut target = "/limit?".to_string();
            if *with_token {
                let tok = b64url_encode(&serde_json::to_vec(&json!({"v": "v1", "page_start": {"n": 5, "order": "ascending", "last": 1, "pad": null}})).unwrap());
                target.push_str(&format!("page_token={}", enc_component(&tok, &mut st2, false)));
            } else {
                target.push_str("n=5");
            }
            target.push_str(&format!("&limit={}", n));
            let resp = get(target.clone())?;
            st.count("limit_huge");
            st.nontrivial(hash_str(&target));
            if resp.status == 200 {
                let j = resp.json().unwrap_or(Value::Null);
                ensure!(j["limit"] == json!(10000), "limit-clamp", "GET {}: a limit above the server maximum must be capped at 10000 (or refused), handler saw {}", target, j["limit"]);
            } else {
                ensure!((400..500).contains(&resp.status), "invalid-limit-status", "GET {}: got {} {}", target, resp.status, truncate(&resp.body_text(), 200));
            }
        }
        LiveCase::Limit(lt, with_token) => {
            let (text, want): (Option<String>, Option<u32>) = match lt {
                LimitText::Absent => (None, Some(100)),
                LimitText::Valid(n) => (Some(n.to_string()), Some((*n).min(10000))),
                LimitText::Edge(k) => {
                    let n = EDGE_LIMITS[*k as usize % 8];
                    (Some(n.to_string()), Some(n.min(10000)))
                }
                LimitText::Invalid(k) => (Some(INVALID_LIMITS[*k as usize % 12].to_string()), None),
                LimitText::InvalidText(t) => {
                    if t.trim().parse::<u32>().map(|n| n > 0).unwrap_or(false) {
                        return Ok(());
                    }
                    (Some(t.clone()), None)
                }
                LimitText::Huge(_) => unreachable!("handled above"),
            };
            let mut st2 = Style(7);
            let mut target = "/limit?".to_string();
            if *with_token {
                let tok = b64url_encode(&serde_json::to_vec(&json!({"v": "v1", "page_start": {"n": 5, "order": "ascending", "last": 1, "pad": null}})).unwrap());
                target.push_str(&format!("page_token={}", enc_component(&tok, &mut st2, false)));
            } else {
                target.push_str("n=5");
            }
            if let Some(t) = &text {
                target.push_str(&format!("&limit={}", enc_component(t, &mut st2, false)));
            }
            let before = entered();
            let resp = get(target.clone())?;
            st.count(if want.is_some() { "limit_valid" } else { "limit_invalid" });
            st.nontrivial(hash_str(&target));
            match want {
                Some(w) => {
                    ensure!(resp.status == 200, "valid-limit-refused", "GET {}: expected 200 with limit {}, got {} {}", target, w, resp.status, truncate(&resp.body_text(), 200));
                    let j = resp.json().unwrap_or(Value::Null);
                    ensure!(j["limit"] == json!(w), "limit-clamp", "GET {}: effective page size should be {}, handler saw {}", target, w, j["limit"]);
                }
                None => {
                    ensure!((400..500).contains(&resp.status), "invalid-limit-status", "GET {}: limit {:?} must be refused with a 4xx, got {} {}", target, text, resp.status, truncate(&resp.body_text(), 200));
                    ensure!(entered() == before, "invalid-limit-handler-ran", "GET {}: handler ran", target);
                }
            }
            st.sample(|| json!({"target": target, "status": resp.status, "body": truncate(&resp.body_text(), 100)}));
        }
        LiveCase::Token(bc) => {
            let (token, invalid, class) = make_bad_token(bc);
            let mut style = Style(bc.style);
            // the live endpoint's selector type is ScanSel, so *every* token
            // built from a TypedSel has the wrong shape unless refused earlier
            let target = format!("/items?{}", token_query(&token, &mut style));
            let resp = get(target.clone())?;
            st.count("live_bad_token");
            st.nontrivial(hash_str(&target));
            let _ = invalid;
            ensure!(
                (400..500).contains(&resp.status),
                format!("bad-token-status:{}", class),
                "GET {}: token ({}) must be refused with a 4xx, got {} {}",
                truncate(&target, 300),
                class,
                resp.status,
                truncate(&resp.body_text(), 200)
            );
        }
        LiveCase::GoodToken { n, last, pad, style } => {
            let mut st2 = Style(*style);
            let sel = json!({"n": n, "order": "ascending", "last": last, "pad": pad});
            let tok = b64url_encode(&serde_json::to_vec(&json!({"v": "v1", "page_start": sel})).unwrap());
            let target = format!("/limit?n=abc&order=bogus&{}", token_query(&tok, &mut st2));
            let resp = get(target.clone())?;
            st.count("live_good_token");
            ensure!(resp.status == 200, "token-does-not-dominate", "GET {}: valid token with ill-typed scan params must be accepted, got {} {}", truncate(&target, 300), resp.status, truncate(&resp.body_text(), 200));
            let j = resp.json().unwrap_or(Value::Null);
            let which = j["which"].as_str().unwrap_or("").strip_prefix("next:").and_then(|s| serde_json::from_str::<Value>(s).ok());
            ensure!(which == Some(sel.clone()), "selector-differs", "GET {}: handler saw {:?}, token carried {}", truncate(&target, 300), which, sel);
        }
    }
    Ok(())
}

pub fn run(ctx: &mut Ctx) {
    ctx.rule = "round trip: typed and free-form JSON selectors (any Unicode, numbers, nesting) with sizes concentrated around the 512-character bound, issued with ResultsPage::new and accepted with serde_urlencoded::from_str::<PaginationParams<..>>, alone and together with arbitrary/ill-typed scan parameters; refusal: tokens invalid by construction (over-long but otherwise valid, character outside the URL-safe alphabet, base64 of non-JSON, missing v/page_start, wrong version, wrong shape, trailing garbage, empty) and free byte mutations of valid tokens judged against a lenient independent decoder; live: 4xx for bad tokens, limit clamp table incl. whole numbers between 2^32 and 2^64 (capped or refused). non-trivial: issued token within 16 characters of the bound or non-ASCII selector; every bad token and limit string (distinct by text)".into();
    ctx.assume("selectors contain no floats; limit is not a scan parameter (an invalid limit next to a token is still refused)");
    ctx.phase("fuzz_input", 0, Just(FuzzInput { bytes: vec![] }), check_fuzz_input);
    let n = ctx.tier.pick(20000, 400000);
    ctx.phase("round_trip", n, rt_case(), check_rt);
    ctx.require_frac("round_trip", "issued_near_bound", "issued", 0.03);
    ctx.require_frac("round_trip", "not_issued_too_large", "issued", 0.02);
    ctx.require_frac("round_trip", "token_with_scan_params", "issued", 0.3);
    let n = ctx.tier.pick(20000, 400000);
    ctx.phase("bad_tokens", n, bad_case(), check_bad);
    ctx.require_frac("bad_tokens", "mutation_accepted", "class:mutation", 0.005);

    let srt = tokio::runtime::Builder::new_multi_thread().worker_threads(2).enable_all().build().unwrap();
    let rt = tokio::runtime::Builder::new_current_thread().enable_all().build().unwrap();
    let server = {
        let _g = srt.enter();
        start_server(pag_api(), PagCtx::default(), Default::default(), None).expect("server")
    };
    let addr = server.local_addr();
    ctx.max_shrink_iters = 600;
    let n = ctx.tier.pick(5000, 80000);
    {
        let entered = || server.app_private().entered.load(std::sync::atomic::Ordering::SeqCst);
        ctx.phase("live", n, live_case(), |c, st| check_live(addr, &entered, &rt, c, st));
    }
    let _ = srt.block_on(server.close());
}
