//! C03 — request paths are normalised once; unsafe paths never reach a handler.

use crate::core::*;
use crate::dynapi::*;
use crate::http1;
use crate::model::*;
use crate::{ensure, fail};
use proptest::prelude::*;
use serde::{Deserialize, Serialize};
use serde_json::json;
use std::collections::BTreeMap;
use std::time::Duration;

#[derive(Clone, Debug, Serialize, Deserialize)]
pub struct SegSpec {
    pub bytes: Vec<u8>,
    /// per byte: 0 = raw when allowed, 1 = %hh lower, 2 = %HH upper, 3 = mixed
    pub enc: Vec<u8>,
}

#[derive(Clone, Debug, Serialize, Deserialize)]
pub struct PathCase {
    pub segs: Vec<SegSpec>,
    pub slashes: Vec<u8>,
    pub lead: u8,
    pub trail: u8,
    /// alternative slash placement for the metamorphic variant
    pub slashes2: Vec<u8>,
    pub lead2: u8,
    pub trail2: u8,
    /// insert a malformed escape into segment (index, kind)
    pub malformed: Option<(u16, u8)>,
}

fn seg_bytes_strategy() -> impl Strategy<Value = Vec<u8>> {
    let byte = prop_oneof![
        6 => prop::sample::select(b"abAZ09-_~".to_vec()),
        4 => Just(b'.'),
        2 => Just(b'%'),
        2 => Just(b'/'),
        1 => Just(b' '),
        1 => Just(b'+'),
        1 => Just(0u8),
        1 => prop::sample::select(b"?#[]@!$&'()*,;=:\"<>\\^`{|}".to_vec()),
        2 => 0x80u8..=0xff,
        1 => any::<u8>(),
    ];
    prop_oneof![
        6 => proptest::collection::vec(byte, 1..6),
        2 => Just(b".".to_vec()),
        3 => Just(b"..".to_vec()),
        1 => Just(b"...".to_vec()),
        1 => Just("ü".as_bytes().to_vec()),
        1 => Just("日本語".as_bytes().to_vec()),
        1 => Just(b"%2e%2e".to_vec()),
        1 => Just(b"%2F".to_vec()),
        1 => Just(b"a/b".to_vec()),
        1 => Just(b".. ".to_vec()),
        1 => Just(b" .".to_vec()),
        1 => Just(b"\t..\n".to_vec()),
        1 => Just(b" ".to_vec()),
        1 => Just(vec![0xc3]),          // truncated UTF-8
        1 => Just(vec![0xed, 0xa0, 0x80]), // surrogate
        1 => Just(vec![0xf0, 0x9f, 0x98, 0x80]),
    ]
}

fn seg_strategy() -> impl Strategy<Value = SegSpec> {
    (seg_bytes_strategy(), proptest::collection::vec(0u8..4, 6)).prop_map(|(bytes, enc)| SegSpec { bytes, enc })
}

/// segment lists: mostly short; sometimes deep (plain filler segments with a few interesting ones
/// placed anywhere), because nothing in the statement bounds the depth of a path
fn segs_strategy() -> impl Strategy<Value = Vec<SegSpec>> {
    let filler = ("[a-z0-9]{1,3}", proptest::collection::vec(0u8..4, 6)).prop_map(|(s, enc)| SegSpec { bytes: s.into_bytes(), enc });
    let deep = (proptest::collection::vec(filler, 6..90), proptest::collection::vec((any::<u16>(), seg_strategy()), 0..4)).prop_map(|(mut v, specials)| {
        for (at, s) in specials {
            let i = pick_idx(at, v.len() + 1);
            v.insert(i, s);
        }
        v
    });
    prop_oneof![17 => proptest::collection::vec(seg_strategy(), 0..6), 3 => deep]
}

fn slash_run() -> impl Strategy<Value = u8> {
    prop_oneof![12 => 1u8..4, 1 => 4u8..48]
}
fn edge_run() -> impl Strategy<Value = u8> {
    prop_oneof![12 => 0u8..3, 1 => 3u8..48]
}

pub fn path_case_strategy() -> impl Strategy<Value = PathCase> {
    (
        segs_strategy(),
        proptest::collection::vec(slash_run(), 6),
        edge_run(),
        edge_run(),
        proptest::collection::vec(slash_run(), 6),
        edge_run(),
        edge_run(),
        prop_oneof![9 => Just(None), 1 => any::<(u16, u8)>().prop_map(Some)],
    )
        .prop_map(|(segs, slashes, lead, trail, slashes2, lead2, trail2, malformed)| PathCase {
            segs,
            slashes,
            lead,
            trail,
            slashes2,
            lead2,
            trail2,
            malformed,
        })
}

fn raw_allowed(b: u8) -> bool {
    b.is_ascii_alphanumeric()
        || matches!(b, b'-' | b'.' | b'_' | b'~' | b'!' | b'$' | b'&' | b'\'' | b'(' | b')' | b'*' | b'+' | b',' | b';' | b'=' | b':' | b'@')
}

fn render_seg(s: &SegSpec, idx: usize, malformed: &Option<(u16, u8)>, nsegs: usize) -> String {
    let mut out = String::new();
    for (i, &b) in s.bytes.iter().enumerate() {
        let e = s.enc[i % s.enc.len()];
        if e == 0 && raw_allowed(b) {
            out.push(b as char);
        } else {
            match e {
                1 => out.push_str(&format!("%{:02x}", b)),
                2 | 0 => out.push_str(&format!("%{:02X}", b)),
                _ => {
                    let h = format!("{:02x}", b);
                    let mut it = h.chars();
                    out.push('%');
                    out.push(it.next().unwrap().to_ascii_uppercase());
                    out.push(it.next().unwrap());
                }
            }
        }
    }
    if let Some((at, kind)) = malformed {
        if pick_idx(*at, nsegs) == idx {
            out.push_str(match kind % 5 {
                0 => "%",
                1 => "%4",
                2 => "%zz",
                3 => "%4g",
                _ => "%%41",
            });
        }
    }
    out
}

pub fn render(c: &PathCase, variant: bool) -> String {
    let (slashes, lead, trail) = if variant { (&c.slashes2, c.lead2, c.trail2) } else { (&c.slashes, c.lead, c.trail) };
    let mut out = String::new();
    // at least one leading slash: request targets are absolute paths
    for _ in 0..(lead as usize + 1) {
        out.push('/');
    }
    for (i, s) in c.segs.iter().enumerate() {
        if i > 0 {
            for _ in 0..slashes[i % slashes.len()] {
                out.push('/');
            }
        }
        out.push_str(&render_seg(s, i, &c.malformed, c.segs.len()));
    }
    for _ in 0..trail {
        out.push('/');
    }
    out
}

fn wild_table() -> Vec<MEndpoint> {
    vec![MEndpoint {
        op: "wild".into(),
        method: "GET".into(),
        segs: vec![Seg::Wild("w0".into())],
        range: MRange::All,
        visible: false,
        trailing_slash: false,
    }]
}

fn lit_table() -> Vec<MEndpoint> {
    let mk = |op: &str, segs: Vec<Seg>| MEndpoint {
        op: op.into(),
        method: "GET".into(),
        segs,
        range: MRange::All,
        visible: true,
        trailing_slash: false,
    };
    vec![
        mk("root", vec![]),
        mk("lit_a", vec![Seg::Lit("a".into())]),
        mk("lit_ab", vec![Seg::Lit("a".into()), Seg::Lit("b".into())]),
        mk("lit_dots", vec![Seg::Lit("a".into()), Seg::Lit("...".into())]),
        mk("var_x", vec![Seg::Lit("x".into()), Seg::Var("v1".into())]),
        mk("var_xy", vec![Seg::Lit("x".into()), Seg::Var("v1".into()), Seg::Var("v2".into())]),
        mk("lit_pct", vec![Seg::Lit("%2e%2e".into())]),
    ]
}

thread_local! {
    static LOOKUPS: (LookupFn, LookupFn) = (
        into_lookup(build_api(&wild_table()).expect("wild table")),
        into_lookup(build_api(&lit_table()).expect("lit table")),
    );
}

/// judge one raw path string (used by the libFuzzer target and its replays)
pub fn judge_raw(raw: &str) -> Result<(), Failure> {
    let malformed = has_malformed_escape(raw.as_bytes());
    let (w, l) = LOOKUPS.with(|(w, l)| (w("GET", raw, None), l("GET", raw, None)));
    judge_inproc(raw, &w, &l, malformed)
}

#[derive(Clone, Debug, Serialize, Deserialize)]
pub struct FuzzInput {
    pub bytes: Vec<u8>,
}

fn check_fuzz_input(c: &FuzzInput, st: &mut Stats) -> Result<(), Failure> {
    st.eval();
    st.nontrivial(hash_of(&c.bytes));
    st.nontrivial(1);
    match std::str::from_utf8(&c.bytes) {
        Ok(s) => judge_raw(&format!("/{}", s)),
        Err(_) => Ok(()),
    }
}

fn classify(c: &PathCase, raw: &str, st: &mut Stats) -> bool {
    let mut nontrivial = false;
    let encoded_dot = c.segs.iter().any(|s| (s.bytes == b"." || s.bytes == b"..") && s.bytes.iter().enumerate().any(|(i, _)| s.enc[i % s.enc.len()] != 0));
    if encoded_dot {
        st.count("encoded_dot_segment");
        nontrivial = true;
    }
    if c.segs.iter().any(|s| s.bytes == b"." || s.bytes == b"..") {
        st.count("dot_segment");
    }
    if raw.to_ascii_lowercase().contains("%2f") {
        st.count("encoded_slash");
        nontrivial = true;
    }
    if c.segs.iter().any(|s| std::str::from_utf8(&s.bytes).is_err()) {
        st.count("non_utf8");
        nontrivial = true;
    }
    if raw.contains("%25") {
        st.count("double_encoded");
        nontrivial = true;
    }
    if c.malformed.is_some() && !c.segs.is_empty() {
        st.count("malformed_escape");
    }
    if raw.split('/').count() > 32 {
        st.count("deep_32plus_pieces");
        nontrivial = true;
    }
    nontrivial
}

pub fn judge_inproc(raw: &str, wild: &LookupOut, lit: &LookupOut, malformed: bool) -> Result<(), Failure> {
    let norm = normalise_path(raw);
    if malformed {
        // the statement is silent on malformed escapes: no 5xx, nothing else
        for o in [wild, lit] {
            if let LookupOut::Miss { status, .. } = o {
                ensure!(*status < 500, "malformed-escape-5xx", "path {:?}: status {}", raw, status);
            }
        }
        return Ok(());
    }
    match &norm {
        NormPath::Reject(why) => {
            for (name, o) in [("wildcard table", wild), ("literal table", lit)] {
                match o {
                    LookupOut::Miss { status: 400, .. } => {}
                    LookupOut::Found { op, vars, .. } => fail!(
                        format!("unsafe-path-dispatched:{}", why),
                        "path {:?} has a {} and must be refused with 400; {} dispatched it to {} with variables {:?}",
                        raw,
                        why,
                        name,
                        op,
                        vars
                    ),
                    LookupOut::Miss { status, .. } => fail!(
                        format!("unsafe-path-status:{}", why),
                        "path {:?} has a {} and must be refused with 400; {} answered {}",
                        raw,
                        why,
                        name,
                        status
                    ),
                }
            }
        }
        NormPath::Ok(segs) => {
            let mut want = BTreeMap::new();
            want.insert("w0".to_string(), bound_debug(&Bound::Many(segs.clone())));
            match wild {
                LookupOut::Found { vars, .. } => ensure!(
                    vars == &want,
                    "wrong-segments",
                    "path {:?}: handler must receive segments {:?}, router bound {:?}",
                    raw,
                    segs,
                    vars
                ),
                LookupOut::Miss { status, .. } => fail!(
                    "safe-path-refused",
                    "path {:?} normalises to {:?} and must reach the wildcard endpoint; router answered {}",
                    raw,
                    segs,
                    status
                ),
            }
            // literal table: compare with the reference matcher
            let table = lit_table();
            let d = dispatch(&table, "GET", segs, None);
            match (d.len(), lit) {
                (1, LookupOut::Found { op, vars, .. }) => {
                    ensure!(op == &d[0].0.op, "wrong-endpoint", "path {:?}: expected {}, got {}", raw, d[0].0.op, op);
                    let want: BTreeMap<String, String> = d[0].1.iter().map(|(k, v)| (k.clone(), bound_debug(v))).collect();
                    ensure!(vars == &want, "wrong-segments", "path {:?}: expected variables {:?}, got {:?}", raw, want, vars);
                }
                (0, LookupOut::Miss { status, .. }) => {
                    ensure!(*status == 404, "literal-miss-status", "path {:?}: expected 404, got {}", raw, status)
                }
                (n, o) => fail!("literal-table-mismatch", "path {:?}: reference matches {} endpoints, router says {:?}", raw, n, o),
            }
        }
    }
    Ok(())
}

fn check_inproc(c: &PathCase, st: &mut Stats) -> Result<(), Failure> {
    let raw = render(c, false);
    let raw2 = render(c, true);
    let malformed = c.malformed.is_some() && !c.segs.is_empty();
    let (w1, l1, w2, l2) = LOOKUPS.with(|(w, l)| (w("GET", &raw, None), l("GET", &raw, None), w("GET", &raw2, None), l("GET", &raw2, None)));
    st.evals(2);
    st.count("paths");
    if classify(c, &raw, st) {
        st.nontrivial(hash_str(&raw));
    }
    match normalise_path(&raw) {
        NormPath::Ok(_) => st.count("expect_ok"),
        NormPath::Reject(_) => st.count("expect_reject"),
    }
    st.sample(|| json!({"path": raw, "variant": raw2, "reference": format!("{:?}", normalise_path(&raw)), "wild": format!("{:?}", w1)}));
    judge_inproc(&raw, &w1, &l1, malformed)?;
    judge_inproc(&raw2, &w2, &l2, malformed)?;
    ensure!(
        w1 == w2 && l1 == l2,
        "slash-variants-differ",
        "paths {:?} and {:?} differ only in slashes but are treated differently: {:?}/{:?} vs {:?}/{:?}",
        raw,
        raw2,
        w1,
        l1,
        w2,
        l2
    );
    Ok(())
}

struct Live {
    addr: std::net::SocketAddr,
    server: dropshot::HttpServer<DynCtx>,
}

fn check_live(live: &Live, rt: &tokio::runtime::Runtime, cases: &Vec<PathCase>, st: &mut Stats) -> Result<(), Failure> {
    rt.block_on(async {
        let mut conn: Option<http1::Conn> = None;
        for c in cases {
            for variant in [false, true] {
                let raw = render(c, variant);
                let malformed = c.malformed.is_some() && !c.segs.is_empty();
                let req = http1::build_request("GET", &raw, &[], None);
                if conn.is_none() {
                    conn = Some(http1::Conn::connect(live.addr).await.map_err(|e| Failure::new("connect", e.to_string()))?);
                }
                let before = live.server.app_private().entered.load(std::sync::atomic::Ordering::SeqCst);
                let cn = conn.as_mut().unwrap();
                cn.send(&req).await.map_err(|e| Failure::new("send", e.to_string()))?;
                let resp = match cn.read_response(false, Duration::from_secs(10)).await.resp() {
                    Ok(r) => r,
                    Err(e) => fail!("no-response", "GET {:?}: {}", raw, e),
                };
                if resp.header("connection").map(|c| c.eq_ignore_ascii_case("close")).unwrap_or(false) {
                    conn = None;
                }
                let after = live.server.app_private().entered.load(std::sync::atomic::Ordering::SeqCst);
                st.eval();
                st.count("paths");
                if !variant && classify(c, &raw, st) {
                    st.nontrivial(hash_str(&raw));
                }
                if resp.header("x-request-id").is_none() {
                    // answered by hyper itself (target not acceptable as a URI):
                    // outside this property; must still be an error
                    st.count("refused_by_http_layer");
                    ensure!(resp.status >= 400 && after == before, "http-layer", "GET {:?}: {} without request id", raw, resp.status);
                    conn = None;
                    continue;
                }
                if malformed {
                    ensure!(resp.status < 500, "malformed-escape-5xx", "GET {:?}: {}", raw, resp.status);
                    continue;
                }
                match normalise_path(&raw) {
                    NormPath::Reject(why) => {
                        st.count("expect_reject");
                        ensure!(
                            resp.status == 400,
                            if resp.status == 200 { format!("unsafe-path-dispatched:{}", why) } else { format!("unsafe-path-status:{}", why) },
                            "GET {:?} has a {}: expected 400, got {} {}",
                            raw,
                            why,
                            resp.status,
                            truncate(&resp.body_text(), 200)
                        );
                        ensure!(after == before, format!("unsafe-path-dispatched:{}", why), "GET {:?}: a handler ran", raw);
                    }
                    NormPath::Ok(segs) => {
                        st.count("expect_ok");
                        ensure!(resp.status == 200, "safe-path-refused", "GET {:?} -> {:?}: got {} {}", raw, segs, resp.status, truncate(&resp.body_text(), 200));
                        let j = resp.json().ok_or_else(|| Failure::new("echo-not-json", raw.clone()))?;
                        ensure!(
                            j["vars"]["w0"] == json!({"Many": segs}),
                            "wrong-segments",
                            "GET {:?}: handler must receive {:?}, it received {}",
                            raw,
                            segs,
                            j["vars"]
                        );
                        for s in &segs {
                            ensure!(s != "." && s != ".." && !s.is_empty(), "selftest-normaliser", "reference produced {:?}", s);
                        }
                    }
                }
                st.sample(|| json!({"path": raw, "status": resp.status}));
            }
        }
        Ok(())
    })
}

/// single-segment variables as the handler's typed path extractor delivers them
#[derive(Clone, Debug, Serialize, Deserialize)]
struct VarCase {
    first: SegSpec,
    second: Option<SegSpec>,
    trailing: u8,
}

fn var_table() -> Vec<MEndpoint> {
    lit_table().into_iter().filter(|e| e.op.starts_with("var_")).collect()
}

fn check_live_vars(live: &Live, rt: &tokio::runtime::Runtime, c: &VarCase, st: &mut Stats) -> Result<(), Failure> {
    let mut raw = format!("/x/{}", render_seg(&c.first, 0, &None, 1));
    if let Some(s2) = &c.second {
        raw.push('/');
        raw.push_str(&render_seg(s2, 0, &None, 1));
    }
    for _ in 0..(c.trailing % 3) {
        raw.push('/');
    }
    let before = live.server.app_private().entered.load(std::sync::atomic::Ordering::SeqCst);
    let resp = rt
        .block_on(http1::oneshot(live.addr, &http1::build_request("GET", &raw, &[], None), false, Duration::from_secs(10)))
        .map_err(|e| Failure::new("no-response", format!("GET {:?}: {}", raw, e)))?;
    let after = live.server.app_private().entered.load(std::sync::atomic::Ordering::SeqCst);
    st.eval();
    st.count("paths");
    if resp.header("x-request-id").is_none() {
        st.count("refused_by_http_layer");
        ensure!(resp.status >= 400 && after == before, "http-layer", "GET {:?}: {} without request id", raw, resp.status);
        return Ok(());
    }
    match normalise_path(&raw) {
        NormPath::Reject(why) => {
            st.count("expect_reject");
            ensure!(resp.status == 400 && after == before, format!("unsafe-path-dispatched:{}", why), "GET {:?} has a {}: expected 400 and no handler, got {} {}", raw, why, resp.status, truncate(&resp.body_text(), 200));
        }
        NormPath::Ok(segs) => {
            if (segs.len() == 2 || segs.len() == 3) && segs[0] == "x" {
                st.count("expect_ok");
                if segs[1..].iter().any(|s| s.trim() != s.as_str() || s.trim_matches('.').trim().is_empty()) {
                    st.count("value_with_outer_whitespace_or_dots");
                    st.nontrivial(hash_str(&raw));
                }
                ensure!(resp.status == 200, "safe-path-refused", "GET {:?} -> {:?}: got {} {}", raw, segs, resp.status, truncate(&resp.body_text(), 200));
                let j = resp.json().ok_or_else(|| Failure::new("echo-not-json", raw.clone()))?;
                let mut want = serde_json::Map::new();
                want.insert("v1".into(), json!({"One": segs[1]}));
                if segs.len() == 3 {
                    want.insert("v2".into(), json!({"One": segs[2]}));
                }
                ensure!(
                    j["vars"] == serde_json::Value::Object(want.clone()),
                    "wrong-variable-value",
                    "GET {:?}: the typed path extractor must deliver {}, the handler received {}",
                    raw,
                    serde_json::Value::Object(want),
                    j["vars"]
                );
                for v in j["vars"].as_object().into_iter().flat_map(|o| o.values()) {
                    let s = v["One"].as_str().unwrap_or("x");
                    ensure!(s != "." && s != ".." && !s.is_empty(), "forbidden-variable-value", "GET {:?}: handler received the variable value {:?}", raw, s);
                }
            } else {
                st.count("expect_miss");
                ensure!(resp.status == 404 || resp.status == 405, "miss-status", "GET {:?}: {}", raw, resp.status);
            }
        }
    }
    st.sample(|| json!({"path": raw, "status": resp.status}));
    Ok(())
}

pub fn run(ctx: &mut Ctx) {
    ctx.rule = "paths = 0-5 segments (15%: 6-93 segments, mostly plain filler with up to 3 interesting ones anywhere) over the full byte range (biased to dots, '%', '/', NUL, UTF-8 and broken UTF-8), every byte rendered raw or as %hh in lower/upper/mixed hex, 1-3 (sometimes up to 47) slashes between segments and 0-2 (sometimes up to 47) extra leading/trailing slashes; oracle = reference normaliser (split, drop empty, decode once, refuse dot/non-UTF-8) against a wildcard table and a literal/variable table, plus slash-variant metamorphic relation; phase live_variables: /x/{v1} and /x/{v1}/{v2} on a live server, the typed path extractor must deliver exactly the decoded segments (segments with outer whitespace around dots included). non-trivial = path with a dot-segment in an encoded spelling, an encoded slash, a non-UTF-8 segment, a %25 double encoding or more than 32 slash-separated pieces; distinct by raw path".into();
    ctx.assume("for malformed percent escapes only 'no 5xx / no panic' is asserted (the statement is silent on them)");
    ctx.assume("over the wire every byte outside the URI path character set is percent-encoded; targets hyper refuses by itself are not judged");
    // inputs saved by the libFuzzer target fuzz/fuzz_targets/c03_path.rs (replayed, never generated here)
    ctx.phase("fuzz_input", 0, Just(FuzzInput { bytes: vec![] }), check_fuzz_input);
    let n = ctx.tier.pick(100000, 2000000);
    ctx.phase("inproc", n, path_case_strategy(), check_inproc);
    ctx.require_frac("inproc", "encoded_dot_segment", "paths", 0.05);
    ctx.require_frac("inproc", "non_utf8", "paths", 0.05);
    ctx.require_frac("inproc", "encoded_slash", "paths", 0.03);
    ctx.require_frac("inproc", "expect_ok", "paths", 0.15);
    ctx.require_frac("inproc", "deep_32plus_pieces", "paths", 0.08);

    let live = {
        let _g = ctx.rt.enter();
        let api = build_api(&wild_table()).expect("wild table");
        let server = start_server(api, DynCtx::default(), Default::default(), None).expect("server");
        Live { addr: server.local_addr(), server }
    };
    let n = ctx.tier.pick(1500, 20000);
    {
        let rt = tokio::runtime::Builder::new_current_thread().enable_all().build().unwrap();
        ctx.phase("live", n, proptest::collection::vec(path_case_strategy(), 1..12), |c, st| check_live(&live, &rt, c, st));
    }
    let _ = ctx.rt.block_on(live.server.close());
    // single-segment variables through the typed path extractor
    let live2 = {
        let _g = ctx.rt.enter();
        let api = build_api(&var_table()).expect("variable table");
        let server = start_server(api, DynCtx::default(), Default::default(), None).expect("server");
        Live { addr: server.local_addr(), server }
    };
    let n = ctx.tier.pick(4000, 60000);
    {
        let rt = tokio::runtime::Builder::new_current_thread().enable_all().build().unwrap();
        let strat = (seg_strategy(), proptest::option::of(seg_strategy()), 0u8..3).prop_map(|(first, second, trailing)| VarCase { first, second, trailing });
        ctx.phase("live_variables", n, strat, |c, st| check_live_vars(&live2, &rt, c, st));
        ctx.require_frac("live_variables", "value_with_outer_whitespace_or_dots", "paths", 0.03);
    }
    let _ = ctx.rt.block_on(live2.server.close());
}
