//! C17 — shutdown is graceful and complete.

use crate::c16::{run_h1_with, run_h2, ClientResult, ClientSpec, Kind, Point, Proto, BIG_SIZE};
use crate::core::*;
use crate::dynapi::start_server;
use crate::http1;
use crate::lifeapi::*;
use crate::{ensure, fail};
use dropshot::HandlerTaskMode;
use proptest::prelude::*;
use serde::{Deserialize, Serialize};
use serde_json::json;
use std::time::Duration;

#[derive(Clone, Debug, Serialize, Deserialize)]
pub enum ConnState {
    /// handler entered and waiting; the client stays and reads the response
    InFlightStayer { h2: bool, upload: bool, drop_ctx: bool },
    /// handler entered; the client left before close() was called
    InFlightLeaver { h2: bool, rst: bool, drop_ctx: bool },
    /// a large response of which only a little has been read when close() is called
    HalfReadResponse,
    /// a keep-alive connection that completed one request and is idle
    IdleKeepAlive,
    /// part of a request head has been sent; after `then_ms` the client
    /// finishes the request (true) or gives up (false)
    HalfSentRequest { finish: bool, then_ms: u8 },
}

#[derive(Clone, Debug, Serialize, Deserialize)]
pub struct ShutdownScenario {
    #[serde(default)]
    pub tls: bool,
    pub detached: bool,
    pub conns: Vec<ConnState>,
    /// delay (ms) after close() was called before each handler is released
    pub release_after_ms: Vec<u8>,
    pub waiters: u8,
    pub server_workers: u8,
    /// request shutdown by dropping the server instead of calling close(); "finished" is then
    /// what a wait_for_shutdown() future taken beforehand observes
    #[serde(default)]
    pub via_drop: bool,
    /// when > 0: every handler is released this many ms after shutdown was requested (the generated
    /// delays of 0-120 ms are ignored) - for handlers that outlive the draining of connections by far
    #[serde(default)]
    pub long_hold_ms: u32,
}

fn conn_state() -> impl Strategy<Value = ConnState> {
    prop_oneof![
        5 => (any::<bool>(), any::<bool>(), prop::bool::weighted(0.3)).prop_map(|(h2, upload, drop_ctx)| ConnState::InFlightStayer { h2, upload: upload && !h2, drop_ctx: drop_ctx && !upload }),
        4 => (any::<bool>(), any::<bool>(), prop::bool::weighted(0.5)).prop_map(|(h2, rst, drop_ctx)| ConnState::InFlightLeaver { h2, rst, drop_ctx }),
        1 => Just(ConnState::HalfReadResponse),
        2 => Just(ConnState::IdleKeepAlive),
        2 => (any::<bool>(), 0u8..60).prop_map(|(finish, then_ms)| ConnState::HalfSentRequest { finish, then_ms }),
    ]
}

fn shutdown_scenario(max: usize) -> impl Strategy<Value = ShutdownScenario> {
    (prop::bool::weighted(0.3), any::<bool>(), proptest::collection::vec(conn_state(), 1..=max), proptest::collection::vec(0u8..120, 8), 1u8..4, 1u8..5, prop::bool::weighted(0.25)).prop_map(|(tls, detached, mut conns, release_after_ms, waiters, server_workers, via_drop)| {
        if tls {
            for c in conns.iter_mut() {
                match c {
                    ConnState::InFlightStayer { h2, .. } | ConnState::InFlightLeaver { h2, .. } => *h2 = false,
                    _ => {}
                }
            }
        }
        ShutdownScenario { tls, detached, conns, release_after_ms, waiters, server_workers, via_drop, long_hold_ms: 0 }
    })
}

#[derive(Debug)]
enum Outcome {
    Client(ClientResult),
    /// HalfRead: total bytes read, body correct
    HalfRead { status: u16, len: usize, ok: bool },
    Idle,
    HalfSent(String),
    Error(String),
}

fn check_shutdown(rt: &tokio::runtime::Runtime, s: &ShutdownScenario, st: &mut Stats) -> Result<(), Failure> {
    let srt = tokio::runtime::Builder::new_multi_thread().worker_threads(s.server_workers.max(1) as usize).enable_all().build().unwrap();
    let server = {
        let _g = srt.enter();
        let cfg = dropshot::ConfigDropshot {
            default_handler_task_mode: if s.detached { HandlerTaskMode::Detached } else { HandlerTaskMode::CancelOnDisconnect },
            default_request_body_max_bytes: 1 << 20,
            ..Default::default()
        };
        if s.tls {
            crate::dynapi::start_server_tls(life_api(), LifeCtx::default(), cfg).map_err(|e| Failure::new("server-start", e))?
        } else {
            start_server(life_api(), LifeCtx::default(), cfg, None).map_err(|e| Failure::new("server-start", e))?
        }
    };
    let addr = server.local_addr();
    let tls = s.tls;
    let log = server.app_private().log.clone();
    let desc = format!("{}{}mode {} conns {:?} release_after_ms {:?} waiters {}", if s.via_drop { "[shutdown by dropping the server] " } else { "" }, if s.tls { "https " } else { "" }, if s.detached { "detached" } else { "cancel-on-disconnect" }, s.conns, s.release_after_ms, s.waiters);
    let res: Result<(), Failure> = rt.block_on(async {
        // waiters taken before anything happens
        let mut waiter_tasks = vec![];
        for wi in 0..s.waiters {
            let w = server.wait_for_shutdown();
            let wl = log.clone();
            waiter_tasks.push(tokio::spawn(async move {
                let r = w.await;
                wl.push(Ev::WaiterReleased(wi as u64));
                r
            }));
        }
        let (close_tx, close_rx) = tokio::sync::watch::channel(false);
        let mut handles = vec![];
        for (i, cs) in s.conns.iter().cloned().enumerate() {
            let id = i as u64 + 1;
            let l = log.clone();
            let mut close_rx = close_rx.clone();
            let long_hold: u32 = if s.long_hold_ms > 0 { s.long_hold_ms + 8000 } else { 0 };
            handles.push(tokio::spawn(async move {
                match cs {
                    ConnState::InFlightStayer { h2, upload, drop_ctx } => {
                        let c = ClientSpec { kind: if upload { Kind::Upload } else { Kind::Hold }, proto: if h2 { Proto::H2DropConn } else { Proto::H1 }, point: Point::Never, rst: false, drop_ctx, start_delay_ms: 0, hold_ms: long_hold };
                        let r = if h2 { run_h2(addr, l, c, id).await } else { run_h1_with(addr, tls, l, c, id).await };
                        r.map(Outcome::Client).unwrap_or_else(|f| Outcome::Error(f.msg))
                    }
                    ConnState::InFlightLeaver { h2, rst, drop_ctx } => {
                        let c = ClientSpec { kind: Kind::Hold, proto: if h2 { Proto::H2DropConn } else { Proto::H1 }, point: Point::WhileWaiting, rst, drop_ctx, start_delay_ms: 0, hold_ms: long_hold };
                        let r = if h2 { run_h2(addr, l, c, id).await } else { run_h1_with(addr, tls, l, c, id).await };
                        r.map(Outcome::Client).unwrap_or_else(|f| Outcome::Error(f.msg))
                    }
                    ConnState::HalfReadResponse => {
                        use tokio::io::AsyncReadExt;
                        let mut conn = match http1::Conn::connect_with(addr, tls).await {
                            Ok(c) => c,
                            Err(e) => return Outcome::Error(e.to_string()),
                        };
                        let req = http1::build_request("GET", &format!("/big?id={}&size={}", id, BIG_SIZE), &[], None);
                        if conn.send(&req).await.is_err() {
                            return Outcome::Error("send".into());
                        }
                        let mut buf = vec![0u8; 2048];
                        match conn.stream.read(&mut buf).await {
                            Ok(n) if n > 0 => conn.buf.extend_from_slice(&buf[..n]),
                            _ => return Outcome::Error("no first bytes of the big response".into()),
                        }
                        l.push(Ev::ClientGone(1_000_000 + id)); // marker: reached the half-read state
                        // wait for close() to be called, then a little more, then read on
                        let _ = close_rx.wait_for(|v| *v).await;
                        tokio::time::sleep(Duration::from_millis(15)).await;
                        match conn.read_response(false, Duration::from_secs(30)).await {
                            http1::ReadOutcome::Resp(r) => {
                                let ok = r.body.len() == BIG_SIZE as usize && r.body.iter().enumerate().all(|(i, b)| *b == (i % 251) as u8);
                                Outcome::HalfRead { status: r.status, len: r.body.len(), ok }
                            }
                            o => Outcome::Error(format!("{:?}", o.resp().err())),
                        }
                    }
                    ConnState::IdleKeepAlive => {
                        let mut conn = match http1::Conn::connect_with(addr, tls).await {
                            Ok(c) => c,
                            Err(e) => return Outcome::Error(e.to_string()),
                        };
                        let _ = conn.send(&http1::build_request("GET", "/health", &[], None)).await;
                        let r = conn.read_response(false, Duration::from_secs(10)).await;
                        l.push(Ev::ClientGone(1_000_000 + id));
                        if !matches!(r, http1::ReadOutcome::Resp(_)) {
                            return Outcome::Error("health on keep-alive connection failed".into());
                        }
                        // stay idle until shutdown is over (the server closes idle connections)
                        let _ = close_rx.wait_for(|v| *v).await;
                        let _ = conn.read_to_end(Duration::from_secs(20)).await;
                        Outcome::Idle
                    }
                    ConnState::HalfSentRequest { finish, then_ms } => {
                        let mut conn = match http1::Conn::connect_with(addr, tls).await {
                            Ok(c) => c,
                            Err(e) => return Outcome::Error(e.to_string()),
                        };
                        let req = http1::build_request("GET", &format!("/hold?id={}&max_ms=50", id), &[], None);
                        let half = req.len() / 2;
                        let _ = conn.send(&req[..half]).await;
                        l.push(Ev::ClientGone(1_000_000 + id));
                        let _ = close_rx.wait_for(|v| *v).await;
                        tokio::time::sleep(Duration::from_millis(then_ms as u64)).await;
                        if finish {
                            let _ = conn.send(&req[half..]).await;
                            let r = conn.read_response(false, Duration::from_secs(20)).await;
                            Outcome::HalfSent(format!("{:?}", r.resp().map(|r| r.status)))
                        } else {
                            drop(conn);
                            Outcome::HalfSent("gave up".into())
                        }
                    }
                }
            }));
        }
        // wait until every connection is in its state
        let n = s.conns.len();
        let conns = s.conns.clone();
        let ready = log
            .wait_for(Duration::from_secs(20), |l| {
                (0..n).all(|i| {
                    let id = i as u64 + 1;
                    match &conns[i] {
                        ConnState::InFlightStayer { .. } => l.has(Ev::Entered(id)),
                        ConnState::InFlightLeaver { .. } => l.has(Ev::ClientGone(id)),
                        _ => l.has(Ev::ClientGone(1_000_000 + id)),
                    }
                })
            })
            .await;
        ensure!(ready, "harness-setup", "connections did not reach their states: {} :: {:?}", desc, log.snapshot());
        // in cancel mode leavers' handlers get cancelled; give that a moment so that it is not racing with close()
        tokio::time::sleep(Duration::from_millis(5)).await;
        let entered_before_close: Vec<u64> = log.snapshot().iter().filter_map(|e| if let Ev::Entered(id) = e { Some(*id) } else { None }).collect();
        let ended_before_close: Vec<u64> = log.snapshot().iter().filter_map(|e| match e { Ev::Completed(id) | Ev::Dropped(id) | Ev::Panicked(id) => Some(*id), _ => None }).collect();
        log.push(Ev::CloseCalled);
        let _ = close_tx.send(true);
        let l2 = log.clone();
        let via_drop = s.via_drop;
        let close_task = tokio::spawn(async move {
            let r = if via_drop {
                let w = server.wait_for_shutdown();
                drop(server);
                w.await
            } else {
                server.close().await
            };
            l2.push(Ev::CloseReturned);
            r
        });
        // release handlers at their delays
        let mut order: Vec<(u64, u64)> = (0..n).map(|i| (if s.long_hold_ms > 0 { s.long_hold_ms as u64 } else { s.release_after_ms[i % s.release_after_ms.len()] as u64 }, i as u64 + 1)).collect();
        order.sort();
        let t0 = std::time::Instant::now();
        for (d, id) in order {
            let wait = Duration::from_millis(d).saturating_sub(t0.elapsed());
            tokio::time::sleep(wait).await;
            log.release(id);
        }
        let close_result = match tokio::time::timeout(Duration::from_secs(30 + (s.long_hold_ms as u64) / 1000), close_task).await {
            Ok(Ok(r)) => r,
            Ok(Err(e)) => fail!("close-panicked", "{}: {}", desc, e),
            Err(_) => fail!("close-hangs", "{}: close() did not return within 30 s :: {:?}", desc, log.snapshot()),
        };
        let mut outcomes = vec![];
        for h in handles {
            outcomes.push(tokio::time::timeout(Duration::from_secs(30), h).await.map(|r| r.unwrap_or_else(|e| Outcome::Error(e.to_string()))).unwrap_or(Outcome::Error("client timed out".into())));
        }
        let mut waiter_results = vec![];
        for w in waiter_tasks {
            match tokio::time::timeout(Duration::from_secs(10), w).await {
                Ok(Ok(r)) => waiter_results.push(r),
                Ok(Err(e)) => fail!("waiter-panicked", "{}: {}", desc, e),
                Err(_) => fail!("waiter-not-released", "{}: a wait_for_shutdown() future was not released after close() returned", desc),
            }
        }
        let ev = log.snapshot();
        let trace = || format!("{} :: events {:?} :: outcomes {:?}", desc, ev, outcomes);
        st.eval();
        st.count("scenarios");
        if s.tls {
            st.count("https_scenarios");
        }
        if s.via_drop {
            st.count("shutdown_by_drop");
        }
        // 4. same result everywhere
        for w in &waiter_results {
            ensure!(w == &close_result, "waiter-result-differs", "close() returned {:?}, a waiter got {:?}: {}", close_result, w, trace());
        }
        let pos = |e: Ev| ev.iter().position(|x| *x == e);
        let close_returned = pos(Ev::CloseReturned).unwrap();
        // shutdown "finishes" for a waiter when its future resolves: the same ordering applies to each of them
        let first_waiter_released = ev.iter().position(|x| matches!(x, Ev::WaiterReleased(_)));
        let close_called = pos(Ev::CloseCalled).unwrap();
        if let Some(w) = first_waiter_released {
            ensure!(w > close_called, "waiter-released-before-shutdown-requested", "a wait_for_shutdown() future resolved before close() was called: {}", trace());
        }
        let mut inflight = 0;
        for (i, cs) in s.conns.iter().enumerate() {
            let id = i as u64 + 1;
            st.count(&format!("state:{}", format!("{:?}", cs).split(|c| c == ' ' || c == '{').next().unwrap()));
            match cs {
                ConnState::InFlightStayer { .. } => {
                    inflight += 1;
                    // 1. complete, correct response
                    match &outcomes[i] {
                        Outcome::Client(ClientResult::Stayed { ok: true, .. }) => {}
                        o => fail!("inflight-response-lost", "connection {} had a started handler when close() was called and stayed connected, but its response is {:?}: {}", id, o, trace()),
                    }
                    // 2. its handler completed before close() returned
                    let c = pos(Ev::Completed(id));
                    ensure!(c.map(|c| c < close_returned).unwrap_or(false), "close-returned-before-handler-finished", "connection {}: {}", id, trace());
                    ensure!(
                        c.zip(first_waiter_released).map(|(c, w)| c < w).unwrap_or(true),
                        "waiter-released-before-handler-finished",
                        "connection {}: a wait_for_shutdown() future resolved while this in-flight handler was still running: {}",
                        id,
                        trace()
                    );
                }
                ConnState::InFlightLeaver { .. } => {
                    if entered_before_close.contains(&id) && !ended_before_close.contains(&id) {
                        inflight += 1;
                    }
                    if s.detached {
                        // detached handlers finish before shutdown does
                        let c = pos(Ev::Completed(id));
                        ensure!(
                            c.map(|c| c < close_returned).unwrap_or(false),
                            "close-returned-before-detached-handler-finished",
                            "connection {}: a detached handler whose client had left was still running when close() returned: {}",
                            id,
                            trace()
                        );
                        ensure!(
                            c.zip(first_waiter_released).map(|(c, w)| c < w).unwrap_or(true),
                            "waiter-released-before-detached-handler-finished",
                            "connection {}: a wait_for_shutdown() future resolved while a detached handler (client gone) was still running: {}",
                            id,
                            trace()
                        );
                        ensure!(pos(Ev::Dropped(id)).is_none(), "detached-handler-cancelled", "connection {}: {}", id, trace());
                    }
                }
                ConnState::HalfReadResponse => match &outcomes[i] {
                    Outcome::HalfRead { status: 200, ok: true, .. } => {}
                    o => fail!("half-read-response-truncated", "connection {} was reading a response when close() was called and kept reading, but got {:?}: {}", id, o, trace()),
                },
                ConnState::IdleKeepAlive | ConnState::HalfSentRequest { .. } => {}
            }
        }
        // exactly-one end for every entered handler
        for e in &ev {
            if let Ev::Entered(id) = e {
                let ends = ev.iter().filter(|x| matches!(x, Ev::Completed(i) | Ev::Dropped(i) | Ev::Panicked(i) if i == id)).count();
                // handlers of requests that arrived during shutdown may still be running; only those from before close() are judged
                if entered_before_close.contains(id) {
                    ensure!(ends == 1, "not-exactly-one-end", "handler {}: {} end events: {}", id, ends, trace());
                }
            }
        }
        // 3. the port no longer accepts connections
        match tokio::time::timeout(Duration::from_secs(5), tokio::net::TcpStream::connect(addr)).await {
            Ok(Err(_)) => {}
            Ok(Ok(_)) => fail!("port-still-open", "connect() to {} succeeded after close() returned: {}", addr, trace()),
            Err(_) => fail!("port-still-open", "connect() to {} hangs after close() returned: {}", addr, trace()),
        }
        ensure!(close_result.is_ok(), "close-error", "close() returned {:?}: {}", close_result, trace());
        let detached_leaver = s.detached && s.conns.iter().any(|c| matches!(c, ConnState::InFlightLeaver { .. }));
        if inflight >= 2 || detached_leaver {
            st.nontrivial(hash_of(&format!("{:?}", s)));
        }
        if detached_leaver {
            st.count("detached_leaver");
        }
        st.sample(|| json!({"scenario": desc, "events": format!("{:?}", ev)}));
        Ok(())
    });
    srt.shutdown_background();
    res
}

pub fn run(ctx: &mut Ctx) {
    ctx.rule = "scenarios = task mode x 1-8 connections in generated states at the moment close() is called (a quarter of the scenarios drop the server instead and observe the end of shutdown through a wait_for_shutdown() future) (handler entered and waiting with the client staying, over HTTP/1.1 or HTTP/2, plain or upload, optionally having dropped its RequestContext; handler entered and client already gone, FIN or RST; a 4 MiB response half read; idle keep-alive; half-sent request that is later finished or abandoned) x 1-3 wait_for_shutdown() futures taken beforehand x handler release delays of 0-120 ms after close() was called x 1-4 server workers. Phase long_running_detached_handler: a detached handler whose client has left is released 11.5 s (thorough: up to 21 s) after shutdown was requested. Oracle over the event log: stayers read complete correct responses; Completed(id) of every in-flight handler and every detached handler precedes CloseReturned and the release of every wait_for_shutdown() future; connect() is refused afterwards; close() and all waiters agree. non-trivial = >= 2 in-flight handlers at close, or a detached handler outliving its client; distinct by scenario".into();
    ctx.assume("liveness is only observed within a 30 s bound; a timeout there is reported as a violation of 'close-hangs' only because every handler is released by the harness within 120 ms");
    ctx.max_shrink_iters = 60;
    let rt = tokio::runtime::Builder::new_multi_thread().worker_threads(4).enable_all().build().unwrap();
    let n = ctx.tier.pick(300, 5000);
    ctx.phase("shutdowns", n, shutdown_scenario(8), |s, st| check_shutdown(&rt, s, st));
    ctx.require_frac("shutdowns", "detached_leaver", "scenarios", 0.15);
    // handlers that keep running long after every connection has drained (a waiting period inside
    // shutdown, however generous, must not end before they do)
    let holds: Vec<u32> = if ctx.tier == Tier::Quick { vec![11_500] } else { vec![11_500, 16_000, 21_000] };
    let cases: Vec<ShutdownScenario> = holds
        .into_iter()
        .flat_map(|h| {
            [false, true].into_iter().map(move |stayer| ShutdownScenario {
                tls: false,
                detached: true,
                conns: if stayer {
                    vec![ConnState::InFlightLeaver { h2: false, rst: false, drop_ctx: false }, ConnState::InFlightStayer { h2: false, upload: false, drop_ctx: false }]
                } else {
                    vec![ConnState::InFlightLeaver { h2: false, rst: false, drop_ctx: false }]
                },
                release_after_ms: vec![0],
                waiters: 1,
                server_workers: 2,
                via_drop: false,
                long_hold_ms: h,
            })
        })
        .collect();
    let cases: Vec<ShutdownScenario> = if ctx.tier == Tier::Quick { cases.into_iter().take(1).collect() } else { cases };
    ctx.enumerate("long_running_detached_handler", cases, false, |s, st| check_shutdown(&rt, s, st));
}
