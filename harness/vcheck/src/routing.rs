//! C01 (dispatch) and C04 (404/405 + Allow) over generated route tables.

use crate::core::*;
use crate::dynapi::*;
use crate::http1;
use crate::model::*;
use crate::tables::*;
use crate::{ensure, fail};
use proptest::prelude::*;
use serde::{Deserialize, Serialize};
use serde_json::json;
use std::collections::{BTreeMap, BTreeSet};
use std::time::Duration;

#[derive(Clone, Copy, PartialEq, Eq, Debug)]
pub enum Mode {
    C01,
    C04,
}

#[derive(Clone, Debug, Serialize, Deserialize)]
pub struct TableCase {
    pub table: TableSpec,
    pub probes: Vec<ProbeSpec>,
    pub perm_a: Vec<u16>,
    pub perm_b: Vec<u16>,
}

pub fn table_case_strategy(depth: u32, probes: usize, miss_bias: bool) -> impl Strategy<Value = TableCase> {
    (
        table_strategy(depth),
        proptest::collection::vec(probe_strategy(miss_bias), 1..=probes),
        proptest::collection::vec(any::<u16>(), 24),
        proptest::collection::vec(any::<u16>(), 24),
    )
        .prop_map(|(table, probes, perm_a, perm_b)| TableCase { table, probes, perm_a, perm_b })
}

pub fn permute<T: Clone>(xs: &[T], perm: &[u16]) -> Vec<T> {
    let mut v: Vec<T> = xs.to_vec();
    let n = v.len();
    for i in (1..n).rev() {
        let j = pick_idx(perm[i % perm.len()], i + 1);
        v.swap(i, j);
    }
    v
}

pub const MAX_ENDPOINTS: usize = 24;

/// does the request (method, segs, version) fall into the listed
/// wildcard-empty-vs-exact class?  (The request path is exactly an endpoint
/// template that also has a wildcard sibling one level below.)
fn wildcard_exact_involved(table: &[MEndpoint], segs: &[String]) -> bool {
    wildcard_exact_pairs(table).iter().any(|(i, _)| path_matches(&table[*i].segs, segs).is_some())
        || table.iter().any(|w| {
            matches!(w.segs.last(), Some(Seg::Wild(_)))
                && path_matches(&w.segs[..w.segs.len() - 1], segs).is_some()
                && table.iter().any(|e| e.segs[..] == w.segs[..w.segs.len() - 1])
        })
}

fn expected_vars(b: &BTreeMap<String, Bound>) -> BTreeMap<String, String> {
    b.iter().map(|(k, v)| (k.clone(), bound_debug(v))).collect()
}

pub fn check_inproc(mode: Mode, c: &TableCase, st: &mut Stats) -> Result<(), Failure> {
    let table = c.table.endpoints(MAX_ENDPOINTS);
    let t_a = permute(&table, &c.perm_a);
    let t_b = permute(&table, &c.perm_b);
    let api_a = match build_api(&t_a) {
        Ok(a) => a,
        Err(m) => fail!("clean-table-refused", "a table without conflicts was refused: {}", m),
    };
    let api_b = match build_api(&t_b) {
        Ok(a) => a,
        Err(m) => fail!("clean-table-refused", "a table without conflicts was refused (second order): {}", m),
    };
    let la = into_lookup(api_a);
    let lb = into_lookup(api_b);
    st.count("tables");
    st.count_n("endpoints", table.len() as u64);
    let has_wild = table.iter().any(|e| matches!(e.segs.last(), Some(Seg::Wild(_))));
    if has_wild {
        st.count("tables_with_wildcard");
    }
    for p in &c.probes {
        let pr = interpret_probe(&table, p);
        // self-test of the renderer: the reference normaliser recovers the segments
        match normalise_path(&pr.raw_path) {
            NormPath::Ok(s) if s == pr.segs => {}
            other => fail!("selftest-render", "rendered path {:?} normalises to {:?}, wanted {:?}", pr.raw_path, other, pr.segs),
        }
        let v = if c.table.versioned || p.enc_mode == 1 { Some(&pr.version) } else { None };
        let d = dispatch(&table, &pr.method, &pr.segs, v);
        let oa = la(&pr.method, &pr.raw_path, v);
        let ob = lb(&pr.method, &pr.raw_path, v);
        st.eval();
        st.count("probes");
        ensure!(
            oa == ob,
            "order-dependence",
            "{} {} @{:?}: registration order A gives {:?}, order B gives {:?}",
            pr.method,
            pr.raw_path,
            v.map(|v| v.text()),
            oa,
            ob
        );
        let involved = wildcard_exact_involved(&table, &pr.segs);
        let desc = || {
            format!(
                "{} {} (segments {:?}) @{} on table [{}]",
                pr.method,
                pr.raw_path,
                pr.segs,
                v.map(|v| v.text()).unwrap_or("<none>".into()),
                table.iter().map(|e| format!("{}:{} {} [{}]", e.op, e.method, e.template(), e.range.text())).collect::<Vec<_>>().join("; ")
            )
        };
        match d.len() {
            1 => {
                st.count("hit");
                let (e, b) = &d[0];
                let same_method_other_version =
                    table.iter().filter(|x| x.segs == e.segs && x.method == e.method).count() >= 2;
                let sibling_var_or_wild = table.iter().any(|x| {
                    x.segs.len() > e.segs.len()
                        && x.segs[..e.segs.len()] == e.segs[..]
                        && !matches!(x.segs[e.segs.len()], Seg::Lit(_))
                });
                if !b.is_empty() {
                    st.count("hit_binds_variable");
                }
                if b.values().any(|x| matches!(x, Bound::Many(_))) {
                    st.count("hit_binds_wildcard");
                }
                if mode == Mode::C01 && table.len() >= 3 && (!b.is_empty() || same_method_other_version || sibling_var_or_wild) {
                    st.nontrivial(hash_of(&(format!("{:?}", table), &pr.method, &pr.raw_path, pr.version.text())));
                }
                if mode == Mode::C01 {
                    let key_suffix = if involved { ":wildcard-empty-vs-exact" } else { "" };
                    match &oa {
                        LookupOut::Found { op, vars, .. } => {
                            ensure!(
                                op == &e.op,
                                format!("wrong-endpoint{}", key_suffix),
                                "{}: reference says {}, router dispatched to {}",
                                desc(),
                                e.op,
                                op
                            );
                            let want = expected_vars(b);
                            ensure!(
                                vars == &want,
                                format!("wrong-variables{}", key_suffix),
                                "{}: expected variables {:?}, router bound {:?}",
                                desc(),
                                want,
                                vars
                            );
                        }
                        LookupOut::Miss { status, .. } => fail!(
                            format!("hit-missed{}", key_suffix),
                            "{}: reference says {} serves it, router answered {}",
                            desc(),
                            e.op,
                            status
                        ),
                    }
                }
            }
            0 => {
                st.count("miss");
                match &oa {
                    LookupOut::Found { op, .. } => {
                        if mode == Mode::C01 {
                            fail!(
                                format!("miss-dispatched{}", if involved { ":wildcard-empty-vs-exact" } else { "" }),
                                "{}: no endpoint matches, yet router dispatched to {}",
                                desc(),
                                op
                            )
                        }
                    }
                    LookupOut::Miss { status, allow } => {
                        if mode == Mode::C04 {
                            let s = served_methods(&table, &pr.segs, v);
                            let key_suffix = if involved { ":wildcard-empty-vs-exact" } else { "" };
                            // the version filter matters for this case?
                            let s_any = served_methods(&table, &pr.segs, None);
                            if s.is_empty() {
                                st.count("expect404");
                                if !s_any.is_empty() {
                                    st.count("expect404_path_exists_at_other_version");
                                    st.nontrivial(hash_of(&(format!("{:?}", table), &pr.method, &pr.raw_path, pr.version.text())));
                                }
                                ensure!(
                                    *status == 404,
                                    format!("expected-404{}", key_suffix),
                                    "{}: path is served for no method at this version, expected 404, got {} allow={:?}",
                                    desc(),
                                    status,
                                    allow
                                );
                            } else {
                                st.count("expect405");
                                if s_any != s {
                                    st.count("expect405_version_filter_matters");
                                    st.nontrivial(hash_of(&(format!("{:?}", table), &pr.method, &pr.raw_path, pr.version.text())));
                                }
                                ensure!(
                                    *status == 405,
                                    format!("expected-405{}", key_suffix),
                                    "{}: path is served for {:?} at this version, expected 405, got {}",
                                    desc(),
                                    s,
                                    status
                                );
                                let got: BTreeSet<String> = allow.iter().cloned().collect();
                                ensure!(
                                    got == s,
                                    format!(
                                        "allow-{}{}",
                                        if got.is_superset(&s) { "lists-unserved-method" } else { "omits-served-method" },
                                        key_suffix
                                    ),
                                    "{}: Allow must list exactly {:?}, got {:?}",
                                    desc(),
                                    s,
                                    allow
                                );
                                ensure!(
                                    allow.len() == got.len(),
                                    "allow-duplicates",
                                    "{}: Allow repeats a method: {:?}",
                                    desc(),
                                    allow
                                );
                            }
                        }
                    }
                }
            }
            _ => {
                // two endpoints match: the table should not have been
                // accepted (C02's business); nothing to assert for C01/C04
                st.count("ambiguous_probe_skipped");
            }
        }
        st.sample(|| {
            json!({"table": table.iter().map(|e| format!("{} {} [{}]", e.method, e.template(), e.range.text())).collect::<Vec<_>>(),
                   "probe": format!("{} {} @{}", pr.method, pr.raw_path, pr.version.text()),
                   "reference_dispatch": d.iter().map(|(e, _)| e.op.clone()).collect::<Vec<_>>(),
                   "router": format!("{:?}", oa)})
        });
    }
    Ok(())
}

// ---- whatever registration accepted ---------------------------------------

/// A clean table plus "shadow" endpoints: copies of existing (method, path)
/// pairs with an arbitrary version range.  Whether each is accepted is left
/// to dropshot (that decision is C02's and C05's business); C01 speaks about
/// *any API that registration accepted*, so when dropshot accepts the whole
/// set in both orders, dispatch must be order independent and no request may
/// match two of the accepted endpoints.
#[derive(Clone, Debug, Serialize, Deserialize)]
pub struct ShadowCase {
    pub base: TableCase,
    pub shadows: Vec<(u16, u16)>,
}

pub fn shadow_case_strategy(probes: usize) -> impl Strategy<Value = ShadowCase> {
    (table_case_strategy(3, probes, false), proptest::collection::vec(any::<(u16, u16)>(), 1..4)).prop_map(|(base, shadows)| ShadowCase { base, shadows })
}

pub fn check_accepted(c: &ShadowCase, st: &mut Stats) -> Result<(), Failure> {
    let mut table = c.base.table.endpoints(MAX_ENDPOINTS);
    if table.is_empty() {
        return Ok(());
    }
    let n0 = table.len();
    let ranges = all_ranges(&pool());
    for (k, (ei, ri)) in c.shadows.iter().enumerate() {
        let mut e = table[pick_idx(*ei, n0)].clone();
        e.op = format!("shadow{}", k);
        let start = pick_idx(*ri, ranges.len());
        e.range = ranges[start].clone();
        if ri & 1 == 1 {
            // half of the time look for a range that the reference says shares no version with
            // the endpoints already on this route, so that complete acceptance is common enough
            for off in 0..ranges.len() {
                let r = &ranges[(start + off) % ranges.len()];
                if !table.iter().any(|x| x.method == e.method && x.segs == e.segs && x.range.overlaps(r)) {
                    e.range = r.clone();
                    break;
                }
            }
        }
        table.push(e);
    }
    let t_a = permute(&table, &c.base.perm_a);
    let mut t_b = t_a.clone();
    t_b.reverse();
    st.count("sets");
    let text = || table.iter().map(|e| format!("{}:{} {} [{}]", e.op, e.method, e.template(), e.range.text())).collect::<Vec<_>>().join("; ");
    let mut apis = vec![];
    for (name, t) in [("order A", &t_a), ("the reverse of A", &t_b)] {
        let mut api = dropshot::ApiDescription::new();
        let mut all = true;
        for e in t.iter() {
            if !try_register(&mut api, e, &default_path_spec(e), None, &[]).accepted() {
                all = false;
                break;
            }
        }
        if all {
            apis.push((name, t, api));
        }
    }
    if apis.len() < 2 {
        st.count("sets_with_a_refusal");
    }
    if apis.len() == 1 {
        // accepted in one order only: that API exists, and the statement covers it
        st.count("sets_accepted_in_one_order_only");
        let (name, t, api) = apis.pop().unwrap();
        let l = into_lookup(api);
        for p in &c.base.probes {
            let pr = interpret_probe(&table, p);
            let v = Some(&pr.version);
            let d = dispatch(&table, &pr.method, &pr.segs, v);
            st.eval();
            ensure!(
                d.len() <= 1,
                "request-matches-two-accepted-endpoints",
                "{} {} @{} matches {:?}, all of which registration accepted when registered in {} ({}): [{}]; it dispatches {:?}",
                pr.method,
                pr.raw_path,
                pr.version.text(),
                d.iter().map(|(e, _)| e.op.clone()).collect::<Vec<_>>(),
                name,
                t.iter().map(|e| e.op.clone()).collect::<Vec<_>>().join(", "),
                text(),
                l(&pr.method, &pr.raw_path, v)
            );
        }
        return Ok(());
    }
    if apis.is_empty() {
        return Ok(());
    }
    st.count("sets_fully_accepted");
    let mut apis: Vec<_> = apis.into_iter().map(|(_, _, a)| a).collect();
    let lb = into_lookup(apis.pop().unwrap());
    let la = into_lookup(apis.pop().unwrap());
    for p in &c.base.probes {
        let pr = interpret_probe(&table, p);
        let v = Some(&pr.version);
        let d = dispatch(&table, &pr.method, &pr.segs, v);
        let oa = la(&pr.method, &pr.raw_path, v);
        let ob = lb(&pr.method, &pr.raw_path, v);
        st.eval();
        if d.len() == 1 && d[0].0.op.starts_with("shadow") || table.iter().filter(|x| x.segs == d.first().map(|d| d.0.segs.clone()).unwrap_or_default() && d.len() == 1 && x.method == d[0].0.method).count() >= 2 {
            st.count("probe_on_shadowed_route");
            st.nontrivial(hash_of(&(text(), &pr.method, &pr.raw_path, pr.version.text())));
        }
        ensure!(
            d.len() <= 1,
            "request-matches-two-accepted-endpoints",
            "{} {} @{} matches {:?}, all of which registration accepted (in both orders): [{}]; order A dispatches {:?}, order B {:?}",
            pr.method,
            pr.raw_path,
            pr.version.text(),
            d.iter().map(|(e, _)| e.op.clone()).collect::<Vec<_>>(),
            text(),
            oa,
            ob
        );
        ensure!(oa == ob, "order-dependence", "{} {} @{} on [{}]: order A gives {:?}, the reverse order gives {:?}", pr.method, pr.raw_path, pr.version.text(), text(), oa, ob);
        if let (Some((e, _)), LookupOut::Found { op, .. }) = (d.first(), &oa) {
            ensure!(op == &e.op, "wrong-endpoint", "{} {} @{} on [{}]: reference says {}, router dispatched to {}", pr.method, pr.raw_path, pr.version.text(), text(), e.op, op);
        }
    }
    Ok(())
}

// ---- unversioned servers ---------------------------------------------------

/// Starting an *unversioned* server with the same set of endpoints registered in two orders: the
/// server must be accepted in both orders or refused in both, and when it is accepted the two
/// servers answer every probe identically.  (dropshot refuses unversioned servers whose API has
/// version-restricted endpoints; whether it does is not judged here, only that order is irrelevant.)
pub fn check_unversioned(rt: &tokio::runtime::Runtime, c: &TableCase, st: &mut Stats) -> Result<(), Failure> {
    let table = c.table.endpoints(MAX_ENDPOINTS);
    if table.is_empty() {
        return Ok(());
    }
    let t_a = permute(&table, &c.perm_a);
    let mut t_b = t_a.clone();
    t_b.reverse();
    // also try the order that puts an unrestricted endpoint last / first
    let mut t_c = t_a.clone();
    t_c.sort_by_key(|e| e.range == MRange::All);
    let mut t_d = t_c.clone();
    t_d.reverse();
    let text = || table.iter().map(|e| format!("{}:{} {} [{}]", e.op, e.method, e.template(), e.range.text())).collect::<Vec<_>>().join("; ");
    let mut servers = vec![];
    for (name, t) in [("A", &t_a), ("reverse of A", &t_b), ("restricted first", &t_c), ("restricted last", &t_d)] {
        let api = match build_api(t) {
            Ok(a) => a,
            Err(m) => fail!("clean-table-refused", "a table without conflicts was refused: {}", m),
        };
        let _g = rt.enter();
        servers.push((name, start_server(api, DynCtx::default(), Default::default(), None)));
    }
    st.count("tables");
    let restricted = table.iter().filter(|e| e.range != MRange::All).count();
    if restricted > 0 && restricted < table.len() {
        st.count("mixed_restricted_and_unrestricted");
        st.nontrivial(hash_of(&text()));
    }
    let accepted: Vec<bool> = servers.iter().map(|(_, s)| s.is_ok()).collect();
    st.eval();
    let result = (|| {
        ensure!(
            accepted.iter().all(|a| *a == accepted[0]),
            "unversioned-server-acceptance-depends-on-order",
            "unversioned server for [{}]: accepted per registration order {:?} = {:?}",
            text(),
            servers.iter().map(|(n, _)| *n).collect::<Vec<_>>(),
            accepted
        );
        if !accepted[0] {
            st.count("refused_in_every_order");
            return Ok(());
        }
        st.count("accepted_in_every_order");
        rt.block_on(async {
            for p in &c.probes {
                let pr = interpret_probe(&table, p);
                let req = http1::build_request(&pr.method, &pr.raw_path, &[], None);
                let mut answers = vec![];
                for (name, s) in &servers {
                    let addr = s.as_ref().unwrap().local_addr();
                    let r = http1::oneshot(addr, &req, pr.method == "HEAD", Duration::from_secs(10)).await.map_err(|e| Failure::new("no-response", format!("{} {}: {}", pr.method, pr.raw_path, e)))?;
                    answers.push((*name, r.status, r.json().map(|j| j["op"].clone())));
                }
                st.eval();
                ensure!(
                    answers.iter().all(|a| a.1 == answers[0].1 && a.2 == answers[0].2),
                    "order-dependence",
                    "unversioned servers for [{}]: {} {} answered per registration order: {:?}",
                    text(),
                    pr.method,
                    pr.raw_path,
                    answers
                );
            }
            Ok(())
        })
    })();
    for (_, s) in servers {
        if let Ok(s) = s {
            let _ = rt.block_on(s.close());
        }
    }
    st.sample(|| json!({"table": text(), "accepted": accepted[0]}));
    result
}

// ---- live ---------------------------------------------------------------

pub fn check_live(mode: Mode, rt: &tokio::runtime::Runtime, c: &TableCase, st: &mut Stats) -> Result<(), Failure> {
    let table = c.table.endpoints(MAX_ENDPOINTS);
    let t_a = permute(&table, &c.perm_a);
    let api = match build_api(&t_a) {
        Ok(a) => a,
        Err(m) => fail!("clean-table-refused", "a table without conflicts was refused: {}", m),
    };
    let versioned = table.iter().any(|e| e.range != MRange::All);
    let policy = if versioned {
        Some(dropshot::VersionPolicy::Dynamic(Box::new(dropshot::ClientSpecifiesVersionInHeader::new(
            http::HeaderName::from_static("x-verif-version"),
            MVer::parse("9.0.0").semver(),
        ))))
    } else {
        None
    };
    let server = {
        let _g = rt.enter();
        start_server(api, DynCtx::default(), Default::default(), policy).map_err(|e| Failure::new("server-start", e))?
    };
    let addr = server.local_addr();
    st.count("tables");
    let result: Result<(), Failure> = rt.block_on(async {
        let mut conn: Option<http1::Conn> = None;
        for p in &c.probes {
            let pr = interpret_probe(&table, p);
            let v = if versioned { Some(&pr.version) } else { None };
            let d = dispatch(&table, &pr.method, &pr.segs, v);
            let involved = wildcard_exact_involved(&table, &pr.segs);
            let ks = if involved { ":wildcard-empty-vs-exact" } else { "" };
            let mut headers = vec![];
            if versioned {
                headers.push(("x-verif-version".to_string(), pr.version.text()));
            }
            let req = http1::build_request(&pr.method, &pr.raw_path, &headers, None);
            let before = server.app_private().entered.load(std::sync::atomic::Ordering::SeqCst);
            if conn.is_none() {
                conn = Some(http1::Conn::connect(addr).await.map_err(|e| Failure::new("connect", e.to_string()))?);
            }
            let cn = conn.as_mut().unwrap();
            cn.send(&req).await.map_err(|e| Failure::new("send", e.to_string()))?;
            let is_head = pr.method == "HEAD";
            let resp = match cn.read_response(is_head, Duration::from_secs(10)).await.resp() {
                Ok(r) => r,
                Err(e) => fail!("no-response", "{} {}: {}", pr.method, pr.raw_path, e),
            };
            if resp.header("connection").map(|c| c.eq_ignore_ascii_case("close")).unwrap_or(false) {
                conn = None;
            }
            let after = server.app_private().entered.load(std::sync::atomic::Ordering::SeqCst);
            st.eval();
            st.count("probes");
            let desc = format!(
                "{} {} @{} on [{}] -> {} {}",
                pr.method,
                pr.raw_path,
                pr.version.text(),
                table.iter().map(|e| format!("{}:{} {} [{}]", e.op, e.method, e.template(), e.range.text())).collect::<Vec<_>>().join("; "),
                resp.status,
                truncate(&resp.body_text(), 200)
            );
            match d.len() {
                1 => {
                    st.count("hit");
                    if mode == Mode::C01 {
                        let (e, b) = &d[0];
                        ensure!(resp.status == 200, format!("hit-missed{}", ks), "{}: reference says {} serves it", desc, e.op);
                        ensure!(after == before + 1, "hit-entered-count", "{}: handler entries moved by {}", desc, after - before);
                        if !is_head {
                            let j = resp.json().ok_or_else(|| Failure::new("echo-not-json", desc.clone()))?;
                            ensure!(j["op"] == json!(e.op), format!("wrong-endpoint{}", ks), "{}: reference says {}", desc, e.op);
                            let want = serde_json::to_value(b).unwrap();
                            ensure!(j["vars"] == want, format!("wrong-variables{}", ks), "{}: handler should have received {}", desc, want);
                            if !b.is_empty() && table.len() >= 3 {
                                st.nontrivial(hash_of(&desc));
                            }
                        }
                    }
                }
                0 => {
                    st.count("miss");
                    ensure!(after == before, format!("miss-ran-handler{}", ks), "{}: no endpoint matches but a handler ran", desc);
                    if mode == Mode::C01 {
                        ensure!(resp.status >= 400, format!("miss-dispatched{}", ks), "{}: no endpoint matches", desc);
                    } else {
                        let s = served_methods(&table, &pr.segs, v);
                        if s.is_empty() {
                            ensure!(resp.status == 404, format!("expected-404{}", ks), "{}: expected 404", desc);
                        } else {
                            ensure!(resp.status == 405, format!("expected-405{}", ks), "{}: expected 405 with Allow {:?}", desc, s);
                            let mut got = vec![];
                            for line in resp.header_all("allow") {
                                for tok in String::from_utf8_lossy(line).split(',') {
                                    got.push(tok.trim().to_string());
                                }
                            }
                            let gs: BTreeSet<String> = got.iter().cloned().collect();
                            ensure!(
                                gs == s && gs.len() == got.len(),
                                format!("allow-{}{}", if gs.is_superset(&s) { "lists-unserved-method" } else { "omits-served-method" }, ks),
                                "{}: Allow must list exactly {:?}, wire has {:?}",
                                desc,
                                s,
                                got
                            );
                            st.nontrivial(hash_of(&desc));
                        }
                    }
                }
                _ => st.count("ambiguous_probe_skipped"),
            }
            st.sample(|| json!({"probe": format!("{} {} @{}", pr.method, pr.raw_path, pr.version.text()), "status": resp.status, "body": truncate(&resp.body_text(), 120)}));
        }
        Ok(())
    });
    let _ = rt.block_on(server.close());
    result
}

pub fn run(ctx: &mut Ctx, mode: Mode) {
    let (id, rule) = match mode {
        Mode::C01 => ("C01", "route tables built constructively as trees (literal/variable/wildcard edges, 0-3 methods per node each with pairwise disjoint version ranges), registered in two shuffled orders; probes instantiate a template with adversarial segments and optionally mutate it; oracle = flat-list reference matcher. non-trivial = hit on a table of >=3 endpoints that binds a variable/wildcard, or lands on a node with >=2 same-method endpoints at different versions, or on a node with a variable/wildcard child; distinct by (table, probe). Phase accepted_sets: the same tables plus 1-3 copies of existing (method, path) pairs with arbitrary version ranges; sets that dropshot accepts completely in an order and in its reverse must dispatch identically in both and no probe may match two accepted endpoints (non-trivial = probe landing on a route that has a second endpoint). Phase unversioned_servers: the same endpoint set registered in four orders (a shuffle, its reverse, restricted endpoints first / last) and started as an unversioned server: accepted in all orders or in none, and identical answers to every probe when accepted"),
        Mode::C04 => ("C04", "same tables as C01, probes biased to misses; oracle = served_methods(path, version) from the flat-list reference matcher. non-trivial = 405 whose node also carries a method not served at this version, or 404 whose path exists at another version (in-process); live: every 405 with its Allow bytes; distinct by (table, probe)"),
    };
    let _ = id;
    ctx.rule = rule.into();
    ctx.assume("methods are generated in canonical upper case; dot-segments and invalid UTF-8 belong to C03");
    let tables = ctx.tier.pick(15000, 150000);
    let probes = ctx.tier.pick(12, 24);
    ctx.phase("inproc", tables, table_case_strategy(4, probes, mode == Mode::C04), |c, st| check_inproc(mode, c, st));
    ctx.require_frac("inproc", "hit", "probes", 0.2);
    ctx.require_frac("inproc", "miss", "probes", 0.1);
    ctx.require_frac("inproc", "tables_with_wildcard", "tables", 0.05);
    if mode == Mode::C01 {
        ctx.require_frac("inproc", "hit_binds_wildcard", "probes", 0.02);
        let n = ctx.tier.pick(15000, 150000);
        ctx.phase("accepted_sets", n, shadow_case_strategy(probes), check_accepted);
        ctx.require_frac("accepted_sets", "sets_fully_accepted", "sets", 0.1);
        ctx.require_frac("accepted_sets", "sets_with_a_refusal", "sets", 0.1);
    } else {
        ctx.require_frac("inproc", "expect405", "probes", 0.03);
        ctx.require_frac("inproc", "expect405_version_filter_matters", "probes", 0.003);
    }
    let rt = tokio::runtime::Builder::new_multi_thread().worker_threads(2).enable_all().build().unwrap();
    if mode == Mode::C01 {
        let n = ctx.tier.pick(600, 8000);
        ctx.phase("unversioned_servers", n, table_case_strategy(2, 4, false), |c, st| check_unversioned(&rt, c, st));
        ctx.require_frac("unversioned_servers", "mixed_restricted_and_unrestricted", "tables", 0.15);
        ctx.require_frac("unversioned_servers", "accepted_in_every_order", "tables", 0.05);
    }
    let tables = ctx.tier.pick(1200, 12000);
    ctx.phase("live", tables, table_case_strategy(3, probes, mode == Mode::C04), |c, st| check_live(mode, &rt, c, st));
}
