//! R7: life-cycle event log and the handlers used by C16, C17 and C18.

use dropshot::{endpoint, ApiDescription, Body, HttpError, HttpResponseOk, Query, RequestContext, UntypedBody};
use schemars::JsonSchema;
use serde::{Deserialize, Serialize};
use std::collections::BTreeMap;
use std::sync::atomic::{AtomicU64, Ordering};
use std::sync::{Arc, Mutex};
use std::time::{Duration, Instant};

#[derive(Clone, Copy, Debug, PartialEq, Eq, Serialize, Deserialize)]
pub enum Ev {
    Entered(u64),
    Completed(u64),
    /// the handler future was dropped before it completed (cancellation)
    Dropped(u64),
    /// the handler unwound with a panic
    Panicked(u64),
    CloseCalled,
    CloseReturned,
    ClientGone(u64),
    ResponseRead(u64),
    /// a wait_for_shutdown() future (number n) resolved
    WaiterReleased(u64),
}

#[derive(Default)]
pub struct EventLog {
    pub events: Mutex<Vec<(u64, Ev)>>,
    seq: AtomicU64,
    /// per-request progress counters (incremented while a handler is waiting)
    pub progress: Mutex<BTreeMap<u64, Arc<AtomicU64>>>,
    /// per-request release flags
    pub released: Mutex<BTreeMap<u64, Arc<tokio::sync::Notify>>>,
    pub release_all: std::sync::atomic::AtomicBool,
}

impl EventLog {
    pub fn push(&self, e: Ev) {
        let n = self.seq.fetch_add(1, Ordering::SeqCst);
        self.events.lock().unwrap().push((n, e));
    }
    pub fn snapshot(&self) -> Vec<Ev> {
        let mut v = self.events.lock().unwrap().clone();
        v.sort_by_key(|(n, _)| *n);
        v.into_iter().map(|(_, e)| e).collect()
    }
    pub fn count(&self, f: impl Fn(&Ev) -> bool) -> usize {
        self.events.lock().unwrap().iter().filter(|(_, e)| f(e)).count()
    }
    pub fn has(&self, e: Ev) -> bool {
        self.count(|x| *x == e) > 0
    }
    pub fn position(&self, e: Ev) -> Option<usize> {
        self.snapshot().iter().position(|x| *x == e)
    }
    fn notify_of(&self, id: u64) -> Arc<tokio::sync::Notify> {
        self.released.lock().unwrap().entry(id).or_insert_with(|| Arc::new(tokio::sync::Notify::new())).clone()
    }
    pub fn release(&self, id: u64) {
        self.notify_of(id).notify_one();
    }
    pub fn progress_of(&self, id: u64) -> u64 {
        self.progress.lock().unwrap().get(&id).map(|a| a.load(Ordering::SeqCst)).unwrap_or(0)
    }
    fn progress_counter(&self, id: u64) -> Arc<AtomicU64> {
        self.progress.lock().unwrap().entry(id).or_insert_with(|| Arc::new(AtomicU64::new(0))).clone()
    }
    /// wait (polling) until the predicate holds or the timeout expires
    pub async fn wait_for(&self, timeout: Duration, f: impl Fn(&EventLog) -> bool) -> bool {
        let t0 = Instant::now();
        loop {
            if f(self) {
                return true;
            }
            if t0.elapsed() > timeout {
                return false;
            }
            tokio::time::sleep(Duration::from_micros(300)).await;
        }
    }
}

pub struct LifeCtx {
    pub log: Arc<EventLog>,
}

impl Default for LifeCtx {
    fn default() -> Self {
        LifeCtx { log: Arc::new(EventLog::default()) }
    }
}

/// logs Dropped/Panicked if the handler does not reach its end
struct Guard {
    log: Arc<EventLog>,
    id: u64,
    done: bool,
}
impl Drop for Guard {
    fn drop(&mut self) {
        if !self.done {
            if std::thread::panicking() {
                self.log.push(Ev::Panicked(self.id));
            } else {
                self.log.push(Ev::Dropped(self.id));
            }
        }
    }
}

#[derive(Deserialize, JsonSchema)]
pub struct HoldQuery {
    pub id: u64,
    /// upper bound on how long the handler waits for its release
    pub max_ms: u64,
    /// drop the RequestContext right after entry (keeping only the log)
    #[serde(default)]
    pub drop_ctx: bool,
}

#[derive(Serialize, JsonSchema)]
pub struct HoldOut {
    pub id: u64,
    pub waited_ms: u64,
}

async fn hold(log: Arc<EventLog>, id: u64, max_ms: u64) -> u64 {
    let t0 = Instant::now();
    let notify = log.notify_of(id);
    let counter = log.progress_counter(id);
    let deadline = t0 + Duration::from_millis(max_ms);
    loop {
        if log.release_all.load(Ordering::SeqCst) {
            break;
        }
        let remaining = deadline.saturating_duration_since(Instant::now());
        if remaining.is_zero() {
            break;
        }
        tokio::select! {
            _ = notify.notified() => break,
            _ = tokio::time::sleep(Duration::from_millis(2).min(remaining)) => {
                counter.fetch_add(1, Ordering::SeqCst);
            }
        }
    }
    t0.elapsed().as_millis() as u64
}

#[endpoint { method = GET, path = "/hold" }]
async fn vl_hold(rq: RequestContext<LifeCtx>, q: Query<HoldQuery>) -> Result<HttpResponseOk<HoldOut>, HttpError> {
    let q = q.into_inner();
    let log = rq.context().log.clone();
    log.push(Ev::Entered(q.id));
    let mut g = Guard { log: log.clone(), id: q.id, done: false };
    if q.drop_ctx {
        drop(rq);
    }
    let waited = hold(log.clone(), q.id, q.max_ms).await;
    g.done = true;
    log.push(Ev::Completed(q.id));
    Ok(HttpResponseOk(HoldOut { id: q.id, waited_ms: waited }))
}

/// a typed JSON body (for requests whose Content-Type header value is not text)
#[endpoint { method = PUT, path = "/typed" }]
async fn vl_typed(rq: RequestContext<LifeCtx>, b: dropshot::TypedBody<serde_json::Value>) -> Result<HttpResponseOk<serde_json::Value>, HttpError> {
    let _ = rq;
    Ok(HttpResponseOk(b.into_inner()))
}

#[endpoint { method = POST, path = "/upload" }]
async fn vl_upload(rq: RequestContext<LifeCtx>, q: Query<HoldQuery>, b: UntypedBody) -> Result<HttpResponseOk<HoldOut>, HttpError> {
    let q = q.into_inner();
    let log = rq.context().log.clone();
    log.push(Ev::Entered(q.id));
    let mut g = Guard { log: log.clone(), id: q.id, done: false };
    let _n = b.as_bytes().len();
    let waited = hold(log.clone(), q.id, q.max_ms).await;
    g.done = true;
    log.push(Ev::Completed(q.id));
    Ok(HttpResponseOk(HoldOut { id: q.id, waited_ms: waited }))
}

#[derive(Deserialize, JsonSchema)]
pub struct BigQuery {
    pub id: u64,
    pub size: u32,
}

#[endpoint { method = GET, path = "/big" }]
async fn vl_big(rq: RequestContext<LifeCtx>, q: Query<BigQuery>) -> Result<hyper::Response<Body>, HttpError> {
    let q = q.into_inner();
    let log = rq.context().log.clone();
    log.push(Ev::Entered(q.id));
    let mut g = Guard { log: log.clone(), id: q.id, done: false };
    let data: Vec<u8> = (0..q.size).map(|i| (i % 251) as u8).collect();
    g.done = true;
    log.push(Ev::Completed(q.id));
    Ok(hyper::Response::builder().status(200).header("content-type", "application/octet-stream").body(Body::from(data)).unwrap())
}

#[endpoint { method = GET, path = "/panic" }]
async fn vl_panic(rq: RequestContext<LifeCtx>, q: Query<HoldQuery>) -> Result<HttpResponseOk<HoldOut>, HttpError> {
    let q = q.into_inner();
    let log = rq.context().log.clone();
    log.push(Ev::Entered(q.id));
    let _g = Guard { log: log.clone(), id: q.id, done: false };
    tokio::time::sleep(Duration::from_millis(q.max_ms.min(20))).await;
    panic!("{} handler {} panics on purpose", crate::core::PANIC_MARKER, q.id);
}

#[endpoint { method = GET, path = "/health" }]
async fn vl_health(_rq: RequestContext<LifeCtx>) -> Result<HttpResponseOk<String>, HttpError> {
    Ok(HttpResponseOk("ok".to_string()))
}

pub fn life_api() -> ApiDescription<LifeCtx> {
    let mut api = ApiDescription::new();
    api.register(vl_hold).unwrap();
    api.register(vl_upload).unwrap();
    api.register(vl_typed).unwrap();
    api.register(vl_big).unwrap();
    api.register(vl_panic).unwrap();
    api.register(vl_health).unwrap();
    api
}
