//! R4: two small schema validators (JSON Schema draft-07 subset; OpenAPI
//! 3.0 schema dialect) and R5: a schema-directed instance generator.

use crate::encoders::Style;
use serde_json::{json, Map, Value};

#[derive(Clone, Copy, PartialEq, Eq, Debug)]
pub enum Dialect {
    /// JSON Schema draft-07 as schemars emits it (type arrays, numeric
    /// exclusive bounds, `definitions`); `nullable: true` is honoured too
    /// because schemars' OpenAPI settings emit it on the input side
    Json07,
    /// OpenAPI 3.0: `nullable`, boolean exclusiveMinimum/Maximum, enum
    /// containing null means nullable
    Oas30,
}

pub struct Validator<'a> {
    pub root: &'a Value,
    pub dialect: Dialect,
    /// set when a keyword could not be interpreted (the verdict is then not used)
    pub unsupported: std::cell::RefCell<Vec<String>>,
}

fn is_integer(v: &Value) -> bool {
    match v {
        Value::Number(n) => n.is_i64() || n.is_u64() || n.as_f64().map(|f| f.fract() == 0.0 && f.is_finite()).unwrap_or(false),
        _ => false,
    }
}

fn num(v: &Value) -> Option<f64> {
    v.as_f64()
}

/// exact comparison helpers for integers beyond 2^53
fn cmp_num(a: &Value, b: f64) -> std::cmp::Ordering {
    if let Some(i) = a.as_i64() {
        if b.fract() == 0.0 && b.abs() < 9.2e18 {
            return (i as i128).cmp(&(b as i128));
        }
    }
    if let Some(u) = a.as_u64() {
        if b.fract() == 0.0 && b >= 0.0 && b < 1.8e19 {
            return (u as i128).cmp(&(b as i128));
        }
    }
    a.as_f64().unwrap().partial_cmp(&b).unwrap_or(std::cmp::Ordering::Equal)
}

fn type_matches(t: &str, v: &Value) -> bool {
    match t {
        "null" => v.is_null(),
        "boolean" => v.is_boolean(),
        "object" => v.is_object(),
        "array" => v.is_array(),
        "string" => v.is_string(),
        "number" => v.is_number(),
        "integer" => is_integer(v),
        _ => false,
    }
}

fn format_ok(fmt: &str, v: &Value) -> Option<bool> {
    let int_range = |lo: i128, hi: i128| -> Option<bool> {
        if !is_integer(v) {
            return Some(true); // format only constrains integers here
        }
        let x: i128 = if let Some(i) = v.as_i64() {
            i as i128
        } else if let Some(u) = v.as_u64() {
            u as i128
        } else {
            let f = v.as_f64().unwrap();
            if f >= hi as f64 * 1.0000001 || f <= lo as f64 * 1.0000001 - 1.0 {
                return Some(false);
            }
            f as i128
        };
        Some(x >= lo && x <= hi)
    };
    match fmt {
        "int32" => int_range(i32::MIN as i128, i32::MAX as i128),
        "int64" => int_range(i64::MIN as i128, i64::MAX as i128),
        "int8" => int_range(i8::MIN as i128, i8::MAX as i128),
        "int16" => int_range(i16::MIN as i128, i16::MAX as i128),
        "uint8" => int_range(0, u8::MAX as i128),
        "uint16" => int_range(0, u16::MAX as i128),
        "uint32" => int_range(0, u32::MAX as i128),
        "uint64" | "uint" => int_range(0, u64::MAX as i128),
        "int" => int_range(i64::MIN as i128, i64::MAX as i128),
        "float" | "double" => Some(true),
        "uuid" => Some(match v.as_str() {
            Some(s) => {
                s.len() == 36
                    && s.chars().enumerate().all(|(i, c)| if [8, 13, 18, 23].contains(&i) { c == '-' } else { c.is_ascii_hexdigit() })
            }
            None => true,
        }),
        _ => None, // unknown formats are annotations
    }
}

impl<'a> Validator<'a> {
    pub fn new(root: &'a Value, dialect: Dialect) -> Validator<'a> {
        Validator { root, dialect, unsupported: Default::default() }
    }

    fn resolve(&self, r: &str) -> Option<&'a Value> {
        let rest = r.strip_prefix("#/")?;
        let mut cur = self.root;
        for part in rest.split('/') {
            let part = part.replace("~1", "/").replace("~0", "~");
            cur = cur.get(&part)?;
        }
        Some(cur)
    }

    pub fn valid(&self, schema: &Value, inst: &Value) -> bool {
        self.valid_d(schema, inst, 0)
    }

    fn valid_d(&self, schema: &Value, inst: &Value, depth: usize) -> bool {
        if depth > 64 {
            self.unsupported.borrow_mut().push("recursion limit".into());
            return true;
        }
        let s = match schema {
            Value::Bool(b) => return *b,
            Value::Object(o) => o,
            _ => {
                self.unsupported.borrow_mut().push(format!("schema is {}", schema));
                return true;
            }
        };
        if let Some(Value::String(r)) = s.get("$ref") {
            match self.resolve(r) {
                Some(t) => {
                    // draft-07: siblings of $ref are ignored; OAS 3.0 likewise
                    return self.valid_d(t, inst, depth + 1);
                }
                None => {
                    self.unsupported.borrow_mut().push(format!("dangling ref {}", r));
                    return true;
                }
            }
        }
        // nullability
        let nullable = s.get("nullable") == Some(&Value::Bool(true));
        if inst.is_null() {
            if nullable {
                return true;
            }
            if self.dialect == Dialect::Oas30 {
                // the idiom for the unit type: enum containing null
                if let Some(Value::Array(e)) = s.get("enum") {
                    if e.contains(&Value::Null) && s.get("type").is_some() {
                        return true;
                    }
                }
            }
        }
        // type
        match s.get("type") {
            None => {}
            Some(Value::String(t)) => {
                if !type_matches(t, inst) {
                    return false;
                }
            }
            Some(Value::Array(ts)) => {
                if self.dialect == Dialect::Oas30 {
                    self.unsupported.borrow_mut().push("type array in OAS".into());
                }
                if !ts.iter().any(|t| t.as_str().map(|t| type_matches(t, inst)).unwrap_or(false)) {
                    return false;
                }
            }
            Some(other) => {
                self.unsupported.borrow_mut().push(format!("type {}", other));
            }
        }
        if let Some(Value::Array(e)) = s.get("enum") {
            if !e.iter().any(|x| json_eq(x, inst)) {
                return false;
            }
        }
        if let Some(c) = s.get("const") {
            if !json_eq(c, inst) {
                return false;
            }
        }
        if let Some(Value::String(f)) = s.get("format") {
            if let Some(false) = format_ok(f, inst) {
                return false;
            }
        }
        // numbers
        if inst.is_number() {
            let (mut min, mut max, mut xmin, mut xmax) = (None, None, None, None);
            if let Some(m) = s.get("minimum").and_then(num) {
                min = Some(m);
            }
            if let Some(m) = s.get("maximum").and_then(num) {
                max = Some(m);
            }
            match (self.dialect, s.get("exclusiveMinimum")) {
                (_, Some(Value::Bool(true))) => {
                    xmin = min.take();
                }
                (_, Some(Value::Bool(false))) | (_, None) => {}
                (Dialect::Json07, Some(v)) => xmin = num(v),
                (Dialect::Oas30, Some(v)) => self.unsupported.borrow_mut().push(format!("numeric exclusiveMinimum {} in OAS 3.0", v)),
            }
            match (self.dialect, s.get("exclusiveMaximum")) {
                (_, Some(Value::Bool(true))) => {
                    xmax = max.take();
                }
                (_, Some(Value::Bool(false))) | (_, None) => {}
                (Dialect::Json07, Some(v)) => xmax = num(v),
                (Dialect::Oas30, Some(v)) => self.unsupported.borrow_mut().push(format!("numeric exclusiveMaximum {} in OAS 3.0", v)),
            }
            use std::cmp::Ordering::*;
            if let Some(m) = min {
                if cmp_num(inst, m) == Less {
                    return false;
                }
            }
            if let Some(m) = max {
                if cmp_num(inst, m) == Greater {
                    return false;
                }
            }
            if let Some(m) = xmin {
                if cmp_num(inst, m) != Greater {
                    return false;
                }
            }
            if let Some(m) = xmax {
                if cmp_num(inst, m) != Less {
                    return false;
                }
            }
            if let Some(m) = s.get("multipleOf").and_then(num) {
                if m > 0.0 {
                    let q = inst.as_f64().unwrap() / m;
                    if (q - q.round()).abs() > 1e-9 {
                        return false;
                    }
                }
            }
        }
        if let Some(st) = inst.as_str() {
            let n = st.chars().count() as u64;
            if let Some(m) = s.get("minLength").and_then(|v| v.as_u64()) {
                if n < m {
                    return false;
                }
            }
            if let Some(m) = s.get("maxLength").and_then(|v| v.as_u64()) {
                if n > m {
                    return false;
                }
            }
            if let Some(Value::String(p)) = s.get("pattern") {
                match regex::Regex::new(p) {
                    Ok(re) => {
                        if !re.is_match(st) {
                            return false;
                        }
                    }
                    Err(_) => self.unsupported.borrow_mut().push(format!("pattern {}", p)),
                }
            }
        }
        if let Some(arr) = inst.as_array() {
            if let Some(m) = s.get("minItems").and_then(|v| v.as_u64()) {
                if (arr.len() as u64) < m {
                    return false;
                }
            }
            if let Some(m) = s.get("maxItems").and_then(|v| v.as_u64()) {
                if (arr.len() as u64) > m {
                    return false;
                }
            }
            if s.get("uniqueItems") == Some(&Value::Bool(true)) {
                for i in 0..arr.len() {
                    for j in 0..i {
                        if json_eq(&arr[i], &arr[j]) {
                            return false;
                        }
                    }
                }
            }
            match s.get("items") {
                None => {}
                Some(Value::Array(tuple)) => {
                    if self.dialect == Dialect::Oas30 {
                        self.unsupported.borrow_mut().push("tuple items in OAS".into());
                    }
                    for (i, x) in arr.iter().enumerate() {
                        if let Some(sub) = tuple.get(i) {
                            if !self.valid_d(sub, x, depth + 1) {
                                return false;
                            }
                        } else if let Some(add) = s.get("additionalItems") {
                            if !self.valid_d(add, x, depth + 1) {
                                return false;
                            }
                        }
                    }
                }
                Some(sub) => {
                    for x in arr {
                        if !self.valid_d(sub, x, depth + 1) {
                            return false;
                        }
                    }
                }
            }
        }
        if let Some(obj) = inst.as_object() {
            if let Some(m) = s.get("minProperties").and_then(|v| v.as_u64()) {
                if (obj.len() as u64) < m {
                    return false;
                }
            }
            if let Some(m) = s.get("maxProperties").and_then(|v| v.as_u64()) {
                if (obj.len() as u64) > m {
                    return false;
                }
            }
            if let Some(Value::Array(req)) = s.get("required") {
                for r in req {
                    if let Some(r) = r.as_str() {
                        if !obj.contains_key(r) {
                            return false;
                        }
                    }
                }
            }
            let props = s.get("properties").and_then(|p| p.as_object());
            if let Some(props) = props {
                for (k, sub) in props {
                    if let Some(x) = obj.get(k) {
                        if !self.valid_d(sub, x, depth + 1) {
                            return false;
                        }
                    }
                }
            }
            if let Some(ap) = s.get("additionalProperties") {
                for (k, x) in obj {
                    if props.map(|p| p.contains_key(k)).unwrap_or(false) {
                        continue;
                    }
                    if !self.valid_d(ap, x, depth + 1) {
                        return false;
                    }
                }
            }
        }
        if let Some(Value::Array(subs)) = s.get("allOf") {
            if !subs.iter().all(|x| self.valid_d(x, inst, depth + 1)) {
                return false;
            }
        }
        if let Some(Value::Array(subs)) = s.get("anyOf") {
            if !subs.iter().any(|x| self.valid_d(x, inst, depth + 1)) {
                return false;
            }
        }
        if let Some(Value::Array(subs)) = s.get("oneOf") {
            if subs.iter().filter(|x| self.valid_d(x, inst, depth + 1)).count() != 1 {
                return false;
            }
        }
        if let Some(n) = s.get("not") {
            if self.valid_d(n, inst, depth + 1) {
                return false;
            }
        }
        for k in ["if", "then", "else", "contains", "patternProperties", "propertyNames", "dependencies"] {
            if s.contains_key(k) {
                self.unsupported.borrow_mut().push(format!("keyword {}", k));
            }
        }
        true
    }
}

pub fn json_eq(a: &Value, b: &Value) -> bool {
    match (a, b) {
        (Value::Number(x), Value::Number(y)) => {
            if let (Some(i), Some(j)) = (x.as_i64(), y.as_i64()) {
                return i == j;
            }
            if let (Some(i), Some(j)) = (x.as_u64(), y.as_u64()) {
                return i == j;
            }
            x.as_f64() == y.as_f64()
        }
        (Value::Array(x), Value::Array(y)) => x.len() == y.len() && x.iter().zip(y).all(|(p, q)| json_eq(p, q)),
        (Value::Object(x), Value::Object(y)) => x.len() == y.len() && x.iter().all(|(k, v)| y.get(k).map(|w| json_eq(v, w)).unwrap_or(false)),
        _ => a == b,
    }
}

// ---- R5: schema-directed instance generation --------------------------------

pub struct Gen<'a> {
    pub root: &'a Value,
    pub st: Style,
    /// only what the schema names: no properties beyond `properties`, no
    /// instance that deliberately satisfies two branches at once
    pub conservative: bool,
}

const WORDS: [&str; 10] = ["", "a", "hello", "ünï", "2020-01-01T00:00:00Z", "00000000-0000-0000-0000-000000000000", "127.0.0.1", "a much longer string value than the others", "two\nlines", "del\u{7f}ete"];

impl<'a> Gen<'a> {
    fn resolve(&self, r: &str) -> Option<&'a Value> {
        let rest = r.strip_prefix("#/")?;
        let mut cur = self.root;
        for part in rest.split('/') {
            cur = cur.get(part)?;
        }
        Some(cur)
    }

    pub fn arbitrary(&mut self, depth: usize) -> Value {
        match self.st.below(if depth > 2 { 5 } else { 7 }) {
            0 => Value::Null,
            1 => json!(self.st.coin()),
            2 => json!(self.st.below(20) as i64 - 5),
            3 => json!(WORDS[self.st.below(10) as usize]),
            4 => json!((self.st.below(1000) as f64) / 8.0),
            5 => Value::Array((0..self.st.below(3)).map(|_| self.arbitrary(depth + 1)).collect()),
            _ => {
                let mut m = Map::new();
                for i in 0..self.st.below(3) {
                    m.insert(format!("k{}", i), self.arbitrary(depth + 1));
                }
                Value::Object(m)
            }
        }
    }

    fn number_for(&mut self, s: &Map<String, Value>, integer: bool) -> Value {
        let fmt = s.get("format").and_then(|f| f.as_str()).unwrap_or("");
        let (lo, hi): (f64, f64) = match fmt {
            "int8" => (-128.0, 127.0),
            "uint8" => (0.0, 255.0),
            "int16" => (-32768.0, 32767.0),
            "uint16" => (0.0, 65535.0),
            "int32" => (-2147483648.0, 2147483647.0),
            "uint32" => (0.0, 4294967295.0),
            "uint64" | "uint" => (0.0, 9.0e15),
            _ => (-9.0e15, 9.0e15),
        };
        let mut lo = lo;
        let mut hi = hi;
        let mut xlo = false;
        let mut xhi = false;
        if let Some(m) = s.get("minimum").and_then(num) {
            lo = lo.max(m);
        }
        if let Some(m) = s.get("maximum").and_then(num) {
            hi = hi.min(m);
        }
        match s.get("exclusiveMinimum") {
            Some(Value::Bool(true)) => xlo = true,
            Some(v) if v.is_number() => {
                lo = lo.max(v.as_f64().unwrap());
                xlo = true;
            }
            _ => {}
        }
        match s.get("exclusiveMaximum") {
            Some(Value::Bool(true)) => xhi = true,
            Some(v) if v.is_number() => {
                hi = hi.min(v.as_f64().unwrap());
                xhi = true;
            }
            _ => {}
        }
        let mult = s.get("multipleOf").and_then(num).filter(|m| *m > 0.0);
        // candidates: bounds, bounds +/- 1, small values, a value in the middle
        let mut cands: Vec<f64> = vec![lo, hi, lo + 1.0, hi - 1.0, 0.0, 1.0, -1.0, 7.0, (lo + hi) / 2.0, lo - 1.0, hi + 1.0];
        if !integer {
            cands.extend([lo + 0.5, hi - 0.5, 0.25, 1e-3]);
        }
        if let Some(m) = mult {
            cands.extend([m, 2.0 * m, 3.0 * m, (lo / m).ceil() * m, (hi / m).floor() * m, m / 2.0]);
        }
        let _ = (xlo, xhi);
        let c = cands[self.st.below(cands.len() as u64) as usize];
        let c = if integer { c.round() } else { c };
        if integer && c.abs() < 9.2e18 {
            json!(c as i64)
        } else {
            json!(c)
        }
    }

    /// an instance that tries to be valid (`valid = true`) or a near miss
    pub fn instance(&mut self, schema: &Value, valid: bool, depth: usize) -> Value {
        if depth > 6 {
            return Value::Null;
        }
        let s = match schema {
            Value::Bool(_) => return self.arbitrary(depth),
            Value::Object(o) => o,
            _ => return Value::Null,
        };
        if let Some(Value::String(r)) = s.get("$ref") {
            return match self.resolve(r) {
                Some(t) => self.instance(t, valid, depth + 1),
                None => Value::Null,
            };
        }
        if !valid && self.st.below(4) == 0 {
            // wrong JSON type altogether
            return self.arbitrary(depth);
        }
        if s.get("nullable") == Some(&Value::Bool(true)) && self.st.below(4) == 0 {
            return Value::Null;
        }
        if let Some(Value::Array(e)) = s.get("enum") {
            if !e.is_empty() && (valid || self.st.coin()) {
                return e[self.st.below(e.len() as u64) as usize].clone();
            }
            return json!("not-in-enum");
        }
        if let Some(c) = s.get("const") {
            return if valid { c.clone() } else { json!("not-the-const") };
        }
        for comb in ["oneOf", "anyOf"] {
            if let Some(Value::Array(subs)) = s.get(comb) {
                if !subs.is_empty() {
                    let k = self.st.below(subs.len() as u64) as usize;
                    let a = self.instance(&subs[k], valid, depth + 1);
                    // sometimes an instance that satisfies two branches at once
                    // (this is what tells anyOf from oneOf)
                    if !self.conservative && subs.len() >= 2 && self.st.below(3) == 0 {
                        let j = self.st.below(subs.len() as u64) as usize;
                        let b = self.instance(&subs[j], valid, depth + 1);
                        if let (Value::Object(mut x), Value::Object(y)) = (a.clone(), b) {
                            x.extend(y);
                            return Value::Object(x);
                        }
                    }
                    return a;
                }
            }
        }
        if let Some(Value::Array(subs)) = s.get("allOf") {
            if subs.len() == 1 {
                return self.instance(&subs[0], valid, depth + 1);
            }
            // merge object instances of all branches
            let mut m = Map::new();
            for sub in subs {
                if let Value::Object(o) = self.instance(sub, valid, depth + 1) {
                    m.extend(o);
                }
            }
            return Value::Object(m);
        }
        let ty: Option<String> = match s.get("type") {
            Some(Value::String(t)) => Some(t.clone()),
            Some(Value::Array(ts)) if !ts.is_empty() => ts[self.st.below(ts.len() as u64) as usize].as_str().map(|s| s.to_string()),
            _ => None,
        };
        match ty.as_deref() {
            Some("null") => Value::Null,
            Some("boolean") => json!(self.st.coin()),
            Some("integer") => self.number_for(s, true),
            Some("number") => self.number_for(s, false),
            Some("string") => {
                let min = s.get("minLength").and_then(|v| v.as_u64());
                let max = s.get("maxLength").and_then(|v| v.as_u64());
                let fmt = s.get("format").and_then(|f| f.as_str()).unwrap_or("");
                let base: String = match fmt {
                    "uuid" => {
                        if valid || self.st.coin() {
                            "123e4567-e89b-12d3-a456-426614174000".into()
                        } else {
                            "not-a-uuid".into()
                        }
                    }
                    "date-time" => "2021-03-04T05:06:07Z".into(),
                    _ => {
                        if let Some(Value::String(p)) = s.get("pattern") {
                            // a few candidates; validity is decided by the validators anyway
                            {
                                let _ = p;
                                ["abc", "ABC", "123", "a-1", "", "x", "123-45", "a@b.c", "http://a.b/c"][self.st.below(9) as usize].to_string()
                            }
                        } else {
                            WORDS[self.st.below(10) as usize].to_string()
                        }
                    }
                };
                // lengths around the bounds
                let target: Option<u64> = match (min, max, self.st.below(4)) {
                    (Some(m), _, 0) => Some(m),
                    (Some(m), _, 1) => Some(m.saturating_sub(1)),
                    (_, Some(m), 2) => Some(m),
                    (_, Some(m), 3) => Some(m + 1),
                    _ => None,
                };
                match target {
                    Some(t) if fmt.is_empty() => json!("é".repeat(t as usize)),
                    _ => json!(base),
                }
            }
            Some("array") => {
                let min = s.get("minItems").and_then(|v| v.as_u64()).unwrap_or(0);
                let max = s.get("maxItems").and_then(|v| v.as_u64());
                let n = match self.st.below(5) {
                    0 => min,
                    1 => min.saturating_sub(1),
                    2 => max.unwrap_or(min + 2),
                    3 => max.map(|m| m + 1).unwrap_or(min + 1),
                    _ => min + self.st.below(3),
                }
                .min(6);
                let item_schema = match s.get("items") {
                    Some(Value::Array(t)) => t.first().cloned().unwrap_or(Value::Bool(true)),
                    Some(x) => x.clone(),
                    None => Value::Bool(true),
                };
                let mut v: Vec<Value> = vec![];
                for _ in 0..n {
                    let ok = valid || self.st.coin();
                    v.push(self.instance(&item_schema, ok, depth + 1));
                }
                if s.get("uniqueItems") == Some(&Value::Bool(true)) && !valid && v.len() >= 1 && self.st.coin() {
                    let d = v[0].clone();
                    v.push(d);
                }
                Value::Array(v)
            }
            Some("object") | None => {
                let mut m = Map::new();
                let req: Vec<String> = s.get("required").and_then(|r| r.as_array()).map(|a| a.iter().filter_map(|x| x.as_str().map(|s| s.to_string())).collect()).unwrap_or_default();
                if let Some(props) = s.get("properties").and_then(|p| p.as_object()) {
                    for (k, sub) in props {
                        let include = req.contains(k) || self.st.coin();
                        if include {
                            let ok = valid || self.st.below(3) != 0;
                            m.insert(k.clone(), self.instance(sub, ok, depth + 1));
                        }
                    }
                } else if ty.is_none() && s.get("additionalProperties").is_none() {
                    return self.arbitrary(depth);
                }
                match s.get("additionalProperties") {
                    Some(Value::Bool(false)) => {
                        if !valid && self.st.coin() {
                            m.insert("zz_unknown".into(), json!(1));
                        }
                    }
                    Some(sub @ Value::Object(_)) => {
                        for i in 0..self.st.below(3) {
                            let ok = valid || self.st.coin();
                            m.insert(format!("extra{}", i), self.instance(sub, ok, depth + 1));
                        }
                    }
                    _ => {
                        if !self.conservative && self.st.below(4) == 0 {
                            m.insert("zz_unknown".into(), json!("x"));
                        }
                    }
                }
                if !valid && !req.is_empty() && self.st.coin() {
                    let k = &req[self.st.below(req.len() as u64) as usize];
                    m.remove(k);
                }
                Value::Object(m)
            }
            Some(_) => Value::Null,
        }
    }
}
