//! R6: raw HTTP/1.1 client with a strict response parser of its own.

use std::net::SocketAddr;
use std::time::Duration;
use tokio::io::{AsyncReadExt, AsyncWriteExt};
use tokio::net::TcpStream;

#[derive(Clone, Debug)]
pub struct RawResp {
    pub status: u16,
    pub reason: String,
    /// header names lower-cased
    pub headers: Vec<(String, Vec<u8>)>,
    pub body: Vec<u8>,
    pub chunked: bool,
}

impl RawResp {
    pub fn header_all(&self, name: &str) -> Vec<&[u8]> {
        self.headers.iter().filter(|(n, _)| n == name).map(|(_, v)| v.as_slice()).collect()
    }
    pub fn header(&self, name: &str) -> Option<String> {
        self.header_all(name).first().map(|v| String::from_utf8_lossy(v).to_string())
    }
    pub fn json(&self) -> Option<serde_json::Value> {
        serde_json::from_slice(&self.body).ok()
    }
    pub fn body_text(&self) -> String {
        String::from_utf8_lossy(&self.body).to_string()
    }
}

#[derive(Clone, Debug)]
pub enum ReadOutcome {
    Resp(RawResp),
    /// connection closed (EOF or reset) with these unconsumed bytes
    Closed(Vec<u8>),
    /// bytes arrived that are not a syntactically valid HTTP/1.1 response
    Malformed(String, Vec<u8>),
    Timeout(Vec<u8>),
}

impl ReadOutcome {
    pub fn resp(self) -> Result<RawResp, String> {
        match self {
            ReadOutcome::Resp(r) => Ok(r),
            ReadOutcome::Closed(b) => Err(format!("connection closed, {} stray bytes", b.len())),
            ReadOutcome::Malformed(m, b) => Err(format!(
                "malformed response: {} :: {:?}",
                m,
                String::from_utf8_lossy(&b[..b.len().min(200)])
            )),
            ReadOutcome::Timeout(b) => Err(format!("timeout with {} bytes buffered", b.len())),
        }
    }
}

/// plain TCP or TLS over TCP, so that every live check can also run against
/// the HTTPS accept path
pub enum Stream {
    Plain(TcpStream),
    Tls(Box<tokio_rustls::client::TlsStream<TcpStream>>),
}

impl tokio::io::AsyncRead for Stream {
    fn poll_read(self: std::pin::Pin<&mut Self>, cx: &mut std::task::Context<'_>, buf: &mut tokio::io::ReadBuf<'_>) -> std::task::Poll<std::io::Result<()>> {
        match self.get_mut() {
            Stream::Plain(s) => std::pin::Pin::new(s).poll_read(cx, buf),
            Stream::Tls(s) => std::pin::Pin::new(s.as_mut()).poll_read(cx, buf),
        }
    }
}

impl tokio::io::AsyncWrite for Stream {
    fn poll_write(self: std::pin::Pin<&mut Self>, cx: &mut std::task::Context<'_>, data: &[u8]) -> std::task::Poll<std::io::Result<usize>> {
        match self.get_mut() {
            Stream::Plain(s) => std::pin::Pin::new(s).poll_write(cx, data),
            Stream::Tls(s) => std::pin::Pin::new(s.as_mut()).poll_write(cx, data),
        }
    }
    fn poll_flush(self: std::pin::Pin<&mut Self>, cx: &mut std::task::Context<'_>) -> std::task::Poll<std::io::Result<()>> {
        match self.get_mut() {
            Stream::Plain(s) => std::pin::Pin::new(s).poll_flush(cx),
            Stream::Tls(s) => std::pin::Pin::new(s.as_mut()).poll_flush(cx),
        }
    }
    fn poll_shutdown(self: std::pin::Pin<&mut Self>, cx: &mut std::task::Context<'_>) -> std::task::Poll<std::io::Result<()>> {
        match self.get_mut() {
            Stream::Plain(s) => std::pin::Pin::new(s).poll_shutdown(cx),
            Stream::Tls(s) => std::pin::Pin::new(s.as_mut()).poll_shutdown(cx),
        }
    }
}

pub struct Conn {
    pub stream: Stream,
    pub buf: Vec<u8>,
    pub local: SocketAddr,
}

fn is_tchar(b: u8) -> bool {
    b.is_ascii_alphanumeric()
        || matches!(
            b,
            b'!' | b'#' | b'$' | b'%' | b'&' | b'\'' | b'*' | b'+' | b'-' | b'.' | b'^' | b'_' | b'`' | b'|' | b'~'
        )
}

enum Parse<T> {
    Done(T, usize),
    NeedMore,
    Bad(String),
}

fn find_crlf(buf: &[u8], from: usize) -> Option<usize> {
    if buf.len() < 2 {
        return None;
    }
    (from..buf.len() - 1).find(|&i| buf[i] == b'\r' && buf[i + 1] == b'\n')
}

struct Head {
    status: u16,
    reason: String,
    headers: Vec<(String, Vec<u8>)>,
}

fn parse_head(buf: &[u8]) -> Parse<Head> {
    let Some(eol) = find_crlf(buf, 0) else {
        if buf.len() > 64 * 1024 {
            return Parse::Bad("status line too long".into());
        }
        // early rejection of junk
        let prefix = b"HTTP/1.1 ";
        let n = buf.len().min(prefix.len());
        if buf[..n] != prefix[..n] && !(buf.len() >= 8 && &buf[..8] == b"HTTP/1.0") {
            return Parse::Bad("does not start with HTTP/1.1".into());
        }
        return Parse::NeedMore;
    };
    let line = &buf[..eol];
    if line.len() < 12 || !(line.starts_with(b"HTTP/1.1 ") || line.starts_with(b"HTTP/1.0 ")) {
        return Parse::Bad(format!("bad status line {:?}", String::from_utf8_lossy(line)));
    }
    let code = &line[9..12];
    if !code.iter().all(|b| b.is_ascii_digit()) {
        return Parse::Bad("status code is not three digits".into());
    }
    let status = (code[0] - b'0') as u16 * 100 + (code[1] - b'0') as u16 * 10 + (code[2] - b'0') as u16;
    let reason = if line.len() > 12 {
        if line[12] != b' ' {
            return Parse::Bad("no space after status code".into());
        }
        let r = &line[13..];
        if r.iter().any(|&b| (b < 0x20 && b != b'\t') || b == 0x7f) {
            return Parse::Bad("control byte in reason phrase".into());
        }
        String::from_utf8_lossy(r).to_string()
    } else {
        String::new()
    };
    let mut pos = eol + 2;
    let mut headers = vec![];
    loop {
        let Some(e) = find_crlf(buf, pos) else {
            if buf.len() > 1024 * 1024 {
                return Parse::Bad("header block too long".into());
            }
            return Parse::NeedMore;
        };
        let line = &buf[pos..e];
        pos = e + 2;
        if line.is_empty() {
            break;
        }
        let Some(colon) = line.iter().position(|&b| b == b':') else {
            return Parse::Bad(format!("header line without colon {:?}", String::from_utf8_lossy(line)));
        };
        let name = &line[..colon];
        if name.is_empty() || !name.iter().all(|&b| is_tchar(b)) {
            return Parse::Bad(format!("bad header name {:?}", String::from_utf8_lossy(name)));
        }
        let mut val = &line[colon + 1..];
        while let [b' ' | b'\t', rest @ ..] = val {
            val = rest;
        }
        while let [rest @ .., b' ' | b'\t'] = val {
            val = rest;
        }
        if val.iter().any(|&b| (b < 0x20 && b != b'\t') || b == 0x7f) {
            return Parse::Bad(format!("control byte in value of header {:?}", String::from_utf8_lossy(name)));
        }
        headers.push((String::from_utf8_lossy(name).to_ascii_lowercase(), val.to_vec()));
    }
    Parse::Done(Head { status, reason, headers }, pos)
}

/// parse a chunked body starting at buf[0]; returns (body, consumed)
fn parse_chunked(buf: &[u8]) -> Parse<Vec<u8>> {
    let mut pos = 0;
    let mut body = vec![];
    loop {
        let Some(e) = find_crlf(buf, pos) else {
            if buf.len() - pos > 1024 {
                return Parse::Bad("chunk size line too long".into());
            }
            return Parse::NeedMore;
        };
        let line = &buf[pos..e];
        let size_part = line.split(|&b| b == b';').next().unwrap();
        if size_part.is_empty() || !size_part.iter().all(|b| b.is_ascii_hexdigit()) {
            return Parse::Bad(format!("bad chunk size {:?}", String::from_utf8_lossy(line)));
        }
        let size = match usize::from_str_radix(std::str::from_utf8(size_part).unwrap(), 16) {
            Ok(s) => s,
            Err(_) => return Parse::Bad("chunk size overflow".into()),
        };
        pos = e + 2;
        if size == 0 {
            // trailers until empty line
            loop {
                let Some(e) = find_crlf(buf, pos) else {
                    return Parse::NeedMore;
                };
                let line = &buf[pos..e];
                pos = e + 2;
                if line.is_empty() {
                    return Parse::Done(body, pos);
                }
                if !line.contains(&b':') {
                    return Parse::Bad("bad trailer line".into());
                }
            }
        }
        if buf.len() < pos + size + 2 {
            return Parse::NeedMore;
        }
        body.extend_from_slice(&buf[pos..pos + size]);
        if &buf[pos + size..pos + size + 2] != b"\r\n" {
            return Parse::Bad("chunk data not followed by CRLF".into());
        }
        pos += size + 2;
    }
}

impl Conn {
    pub async fn connect(addr: SocketAddr) -> std::io::Result<Conn> {
        let stream = TcpStream::connect(addr).await?;
        stream.set_nodelay(true)?;
        let local = stream.local_addr()?;
        Ok(Conn { stream: Stream::Plain(stream), buf: vec![], local })
    }

    /// connect and complete a TLS handshake (any server certificate is accepted)
    pub async fn connect_tls(addr: SocketAddr) -> std::io::Result<Conn> {
        let tcp = TcpStream::connect(addr).await?;
        tcp.set_nodelay(true)?;
        let local = tcp.local_addr()?;
        // a server that never answers the handshake must not hang the client
        let tls = match tokio::time::timeout(Duration::from_secs(10), crate::tls::handshake(&crate::tls::connector(), tcp)).await {
            Ok(r) => r?,
            Err(_) => return Err(std::io::Error::new(std::io::ErrorKind::TimedOut, "TLS handshake not answered within 10 s")),
        };
        Ok(Conn { stream: Stream::Tls(Box::new(tls)), buf: vec![], local })
    }

    pub async fn connect_with(addr: SocketAddr, tls: bool) -> std::io::Result<Conn> {
        if tls {
            Conn::connect_tls(addr).await
        } else {
            Conn::connect(addr).await
        }
    }

    pub async fn send(&mut self, bytes: &[u8]) -> std::io::Result<()> {
        self.stream.write_all(bytes).await?;
        self.stream.flush().await
    }

    /// write the bytes in pieces cut at the given (sorted or not) offsets,
    /// yielding between the pieces
    pub async fn send_split(&mut self, bytes: &[u8], cuts: &[usize], pause_us: u64) -> std::io::Result<()> {
        let mut cuts: Vec<usize> = cuts.iter().map(|c| c % (bytes.len() + 1)).collect();
        cuts.sort();
        cuts.dedup();
        let mut prev = 0;
        for c in cuts.into_iter().chain(std::iter::once(bytes.len())) {
            if c > prev {
                self.stream.write_all(&bytes[prev..c]).await?;
                self.stream.flush().await?;
                if pause_us > 0 {
                    tokio::time::sleep(Duration::from_micros(pause_us)).await;
                } else {
                    tokio::task::yield_now().await;
                }
                prev = c;
            }
        }
        Ok(())
    }

    /// Read one response.  `head` says that the request was HEAD (no body
    /// regardless of framing headers).
    pub async fn read_response(&mut self, head: bool, timeout: Duration) -> ReadOutcome {
        read_response_from(&mut self.stream, &mut self.buf, head, timeout).await
    }

    /// read until EOF or timeout; returns the bytes and whether EOF was seen
    pub async fn read_to_end(&mut self, timeout: Duration) -> (Vec<u8>, bool) {
        let deadline = tokio::time::Instant::now() + timeout;
        let mut out = std::mem::take(&mut self.buf);
        let mut tmp = [0u8; 16384];
        loop {
            match tokio::time::timeout_at(deadline, self.stream.read(&mut tmp)).await {
                Err(_) => return (out, false),
                Ok(Ok(0)) => return (out, true),
                Ok(Ok(n)) => out.extend_from_slice(&tmp[..n]),
                Ok(Err(_)) => return (out, true),
            }
        }
    }

    /// close with RST
    pub fn abort(self) {
        match &self.stream {
            Stream::Plain(s) => {
                let _ = s.set_linger(Some(Duration::from_secs(0)));
            }
            Stream::Tls(s) => {
                let _ = s.get_ref().0.set_linger(Some(Duration::from_secs(0)));
            }
        }
        drop(self.stream);
    }

    pub async fn shutdown_write(&mut self) {
        let _ = self.stream.shutdown().await;
    }
}

/// Read one response from any byte stream (plain TCP or TLS).
pub async fn read_response_from<S: tokio::io::AsyncRead + Unpin>(stream: &mut S, buf: &mut Vec<u8>, head: bool, timeout: Duration) -> ReadOutcome {
    let deadline = tokio::time::Instant::now() + timeout;
    let mut eof = false;
    loop {
        // try to parse what we have
        if !buf.is_empty() {
            match parse_head(&buf) {
                Parse::Bad(m) => return ReadOutcome::Malformed(m, buf.clone()),
                Parse::NeedMore => {}
                Parse::Done(h, used) => {
                    let te: Vec<String> = h
                        .headers
                        .iter()
                        .filter(|(n, _)| n == "transfer-encoding")
                        .map(|(_, v)| String::from_utf8_lossy(v).to_ascii_lowercase())
                        .collect();
                    let cl: Vec<String> = h
                        .headers
                        .iter()
                        .filter(|(n, _)| n == "content-length")
                        .map(|(_, v)| String::from_utf8_lossy(v).to_string())
                        .collect();
                    let no_body = head || h.status / 100 == 1 || h.status == 204 || h.status == 304;
                    let rest = &buf[used..];
                    let done: Parse<(Vec<u8>, bool)> = if no_body {
                        Parse::Done((vec![], false), 0)
                    } else if !te.is_empty() {
                        if te.len() != 1 || te[0].trim() != "chunked" {
                            Parse::Bad(format!("unsupported transfer-encoding {:?}", te))
                        } else if !cl.is_empty() {
                            Parse::Bad("both content-length and transfer-encoding".into())
                        } else {
                            match parse_chunked(rest) {
                                Parse::Done(b, n) => Parse::Done((b, true), n),
                                Parse::NeedMore => Parse::NeedMore,
                                Parse::Bad(m) => Parse::Bad(m),
                            }
                        }
                    } else if !cl.is_empty() {
                        if cl.iter().any(|c| c != &cl[0])
                            || cl[0].is_empty()
                            || !cl[0].bytes().all(|b| b.is_ascii_digit())
                        {
                            Parse::Bad(format!("bad content-length {:?}", cl))
                        } else {
                            match cl[0].parse::<usize>() {
                                Ok(n) if rest.len() >= n => Parse::Done((rest[..n].to_vec(), false), n),
                                Ok(_) => Parse::NeedMore,
                                Err(_) => Parse::Bad("content-length overflow".into()),
                            }
                        }
                    } else if eof {
                        Parse::Done((rest.to_vec(), false), rest.len())
                    } else {
                        Parse::NeedMore
                    };
                    match done {
                        Parse::Bad(m) => return ReadOutcome::Malformed(m, buf.clone()),
                        Parse::NeedMore => {
                            if eof {
                                return ReadOutcome::Malformed(
                                    "connection closed in the middle of a response body".into(),
                                    buf.clone(),
                                );
                            }
                        }
                        Parse::Done((body, chunked), n) => {
                            buf.drain(..used + n);
                            return ReadOutcome::Resp(RawResp {
                                status: h.status,
                                reason: h.reason,
                                headers: h.headers,
                                body,
                                chunked,
                            });
                        }
                    }
                }
            }
        }
        if eof {
            if buf.is_empty() {
                return ReadOutcome::Closed(vec![]);
            }
            return ReadOutcome::Malformed(
                "connection closed in the middle of a response head".into(),
                buf.clone(),
            );
        }
        let mut tmp = [0u8; 16384];
        match tokio::time::timeout_at(deadline, stream.read(&mut tmp)).await {
            Err(_) => return ReadOutcome::Timeout(buf.clone()),
            Ok(Ok(0)) => eof = true,
            Ok(Ok(n)) => buf.extend_from_slice(&tmp[..n]),
            Ok(Err(_)) => {
                // reset by peer: treat like a close
                if buf.is_empty() {
                    return ReadOutcome::Closed(vec![]);
                }
                eof = true;
            }
        }
    }
}


/// Build a request.  `Host` is added; `content-length` is added when
/// `body` is `Some` and no framing header is among `headers`.
pub fn build_request(method: &str, target: &str, headers: &[(String, String)], body: Option<&[u8]>) -> Vec<u8> {
    let mut out = Vec::new();
    out.extend_from_slice(format!("{} {} HTTP/1.1\r\nhost: verif\r\n", method, target).as_bytes());
    let mut has_framing = false;
    for (n, v) in headers {
        let ln = n.to_ascii_lowercase();
        if ln == "content-length" || ln == "transfer-encoding" {
            has_framing = true;
        }
        out.extend_from_slice(n.as_bytes());
        out.extend_from_slice(b": ");
        out.extend_from_slice(v.as_bytes());
        out.extend_from_slice(b"\r\n");
    }
    if let Some(b) = body {
        if !has_framing {
            out.extend_from_slice(format!("content-length: {}\r\n", b.len()).as_bytes());
        }
    }
    out.extend_from_slice(b"\r\n");
    if let Some(b) = body {
        out.extend_from_slice(b);
    }
    out
}

/// encode a body with chunked transfer coding, cutting at the given sizes
/// (cycled); `ext` adds a chunk extension, `trailer` a trailer field.
pub fn chunked_body(body: &[u8], sizes: &[usize], ext: bool, trailer: bool) -> Vec<u8> {
    let mut out = vec![];
    let mut pos = 0;
    let mut i = 0;
    while pos < body.len() {
        let want = if sizes.is_empty() { body.len() } else { sizes[i % sizes.len()].max(1) };
        i += 1;
        let n = want.min(body.len() - pos);
        // servers cap the total size of chunk extensions: use them sparingly
        if ext && i % 2 == 0 && i < 40 {
            out.extend_from_slice(format!("{:x};ext=1\r\n", n).as_bytes());
        } else if i % 3 == 0 {
            out.extend_from_slice(format!("{:X}\r\n", n).as_bytes());
        } else {
            out.extend_from_slice(format!("{:x}\r\n", n).as_bytes());
        }
        out.extend_from_slice(&body[pos..pos + n]);
        out.extend_from_slice(b"\r\n");
        pos += n;
    }
    out.extend_from_slice(b"0\r\n");
    if trailer {
        out.extend_from_slice(b"x-trailer: t\r\n");
    }
    out.extend_from_slice(b"\r\n");
    out
}

/// one-shot request on a fresh connection
pub async fn oneshot(addr: SocketAddr, req: &[u8], head: bool, timeout: Duration) -> Result<RawResp, String> {
    oneshot_with(addr, false, req, head, timeout).await
}

pub async fn oneshot_with(addr: SocketAddr, tls: bool, req: &[u8], head: bool, timeout: Duration) -> Result<RawResp, String> {
    let mut c = Conn::connect_with(addr, tls).await.map_err(|e| format!("connect: {}", e))?;
    c.send(req).await.map_err(|e| format!("send: {}", e))?;
    c.read_response(head, timeout).await.resp()
}

#[cfg(test)]
mod tests {
    use super::*;
    #[test]
    fn chunk_parse() {
        let b = chunked_body(b"hello world", &[3, 4], true, true);
        match parse_chunked(&b) {
            Parse::Done(body, n) => {
                assert_eq!(body, b"hello world");
                assert_eq!(n, b.len());
            }
            _ => panic!(),
        }
    }
}
