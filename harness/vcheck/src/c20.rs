//! C20 — WebSocket upgrades follow the RFC 6455 handshake.

use crate::core::*;
use crate::dynapi::start_server;
use crate::http1;
use crate::{ensure, fail};
use dropshot::{channel, ApiDescription, RequestContext, WebsocketChannelResult, WebsocketConnection};
use proptest::prelude::*;
use serde::{Deserialize, Serialize};
use serde_json::json;
use std::sync::atomic::{AtomicU64, Ordering};
use std::time::Duration;
use tokio::io::{AsyncReadExt, AsyncWriteExt};

// ---- own SHA-1 and base64 (RFC 3174 / RFC 4648) ---------------------------

pub fn sha1(data: &[u8]) -> [u8; 20] {
    let mut h: [u32; 5] = [0x67452301, 0xEFCDAB89, 0x98BADCFE, 0x10325476, 0xC3D2E1F0];
    let mut msg = data.to_vec();
    let ml = (data.len() as u64) * 8;
    msg.push(0x80);
    while msg.len() % 64 != 56 {
        msg.push(0);
    }
    msg.extend_from_slice(&ml.to_be_bytes());
    for chunk in msg.chunks(64) {
        let mut w = [0u32; 80];
        for i in 0..16 {
            w[i] = u32::from_be_bytes([chunk[4 * i], chunk[4 * i + 1], chunk[4 * i + 2], chunk[4 * i + 3]]);
        }
        for i in 16..80 {
            w[i] = (w[i - 3] ^ w[i - 8] ^ w[i - 14] ^ w[i - 16]).rotate_left(1);
        }
        let (mut a, mut b, mut c, mut d, mut e) = (h[0], h[1], h[2], h[3], h[4]);
        for (i, wi) in w.iter().enumerate() {
            let (f, k) = match i {
                0..=19 => ((b & c) | ((!b) & d), 0x5A827999u32),
                20..=39 => (b ^ c ^ d, 0x6ED9EBA1),
                40..=59 => ((b & c) | (b & d) | (c & d), 0x8F1BBCDC),
                _ => (b ^ c ^ d, 0xCA62C1D6),
            };
            let t = a.rotate_left(5).wrapping_add(f).wrapping_add(e).wrapping_add(k).wrapping_add(*wi);
            e = d;
            d = c;
            c = b.rotate_left(30);
            b = a;
            a = t;
        }
        h[0] = h[0].wrapping_add(a);
        h[1] = h[1].wrapping_add(b);
        h[2] = h[2].wrapping_add(c);
        h[3] = h[3].wrapping_add(d);
        h[4] = h[4].wrapping_add(e);
    }
    let mut out = [0u8; 20];
    for i in 0..5 {
        out[4 * i..4 * i + 4].copy_from_slice(&h[i].to_be_bytes());
    }
    out
}

pub fn b64_std(data: &[u8]) -> String {
    const A: &[u8; 64] = b"ABCDEFGHIJKLMNOPQRSTUVWXYZabcdefghijklmnopqrstuvwxyz0123456789+/";
    let mut out = String::new();
    for chunk in data.chunks(3) {
        let b = [chunk[0], *chunk.get(1).unwrap_or(&0), *chunk.get(2).unwrap_or(&0)];
        let n = ((b[0] as u32) << 16) | ((b[1] as u32) << 8) | b[2] as u32;
        out.push(A[(n >> 18) as usize & 63] as char);
        out.push(A[(n >> 12) as usize & 63] as char);
        out.push(if chunk.len() > 1 { A[(n >> 6) as usize & 63] as char } else { '=' });
        out.push(if chunk.len() > 2 { A[n as usize & 63] as char } else { '=' });
    }
    out
}

pub fn accept_for(key: &[u8]) -> String {
    let mut v = key.to_vec();
    v.extend_from_slice(b"258EAFA5-E914-47DA-95CA-C5AB0DC85B11");
    b64_std(&sha1(&v))
}

// ---- server -----------------------------------------------------------------

#[derive(Default)]
pub struct WsCtx {
    pub entered: AtomicU64,
    pub finished: AtomicU64,
    /// /wsburst: bytes the handler had written when it flushed (0 = not there yet)
    pub burst_written: AtomicU64,
}

#[channel { protocol = WEBSOCKETS, path = "/ws" }]
async fn vw_echo(rq: RequestContext<WsCtx>, upgraded: WebsocketConnection) -> WebsocketChannelResult {
    rq.context().entered.fetch_add(1, Ordering::SeqCst);
    let mut io = upgraded.into_inner();
    let mut buf = vec![0u8; 16384];
    loop {
        let n = io.read(&mut buf).await?;
        if n == 0 {
            break;
        }
        io.write_all(&buf[..n]).await?;
        io.flush().await?;
    }
    rq.context().finished.fetch_add(1, Ordering::SeqCst);
    Ok(())
}

const BURST_CAP: u64 = 96 << 20;
fn burst_byte(i: u64) -> u8 {
    (i % 251) as u8
}

/// Writes a position-dependent byte pattern for as long as the connection takes it without delay
/// (the peer is not reading, so this stops when every buffer on the way is full), then flushes and
/// waits for one byte from the peer.  Everything written before the flush has to reach the peer.
#[channel { protocol = WEBSOCKETS, path = "/wsburst" }]
async fn vw_burst(rq: RequestContext<WsCtx>, upgraded: WebsocketConnection) -> WebsocketChannelResult {
    let mut io = upgraded.into_inner();
    let mut total: u64 = 0;
    while total < BURST_CAP {
        let chunk: Vec<u8> = (0..32768u64).map(|k| burst_byte(total + k)).collect();
        match tokio::time::timeout(Duration::from_millis(250), io.write(&chunk)).await {
            Ok(Ok(n)) => total += n as u64,
            Ok(Err(e)) => return Err(e.into()),
            Err(_) => break,
        }
    }
    rq.context().burst_written.store(total.max(1), Ordering::SeqCst);
    io.flush().await?;
    let mut b = [0u8; 1];
    let _ = io.read(&mut b).await;
    Ok(())
}

fn ws_api() -> ApiDescription<WsCtx> {
    let mut api = ApiDescription::new();
    api.register(vw_echo).unwrap();
    api.register(vw_burst).unwrap();
    api
}

// ---- cases --------------------------------------------------------------------

#[derive(Clone, Debug, Serialize, Deserialize)]
pub struct ListSpelling {
    /// tokens before / after the required token
    pub before: Vec<String>,
    pub after: Vec<String>,
    /// case pattern for the required token
    pub case_bits: u16,
    /// whitespace choice per separator: 0 none, 1 SP, 2 HTAB, 3 SP SP
    pub ws: Vec<u8>,
    /// split the list into several header lines at these separators
    pub line_breaks: Vec<bool>,
}

#[derive(Clone, Debug, Serialize, Deserialize)]
pub enum Elem<T> {
    Good(T),
    Missing,
    Wrong(u8),
}

#[derive(Clone, Debug, Serialize, Deserialize)]
pub struct WsCase {
    pub key: Vec<u8>,
    pub connection: Elem<ListSpelling>,
    pub upgrade: Elem<ListSpelling>,
    pub version: Elem<()>,
    pub key_present: bool,
    pub payload: Vec<u8>,
    pub payload_cuts: Vec<u16>,
    /// header name case variant
    pub name_case: u8,
    pub extra_headers: bool,
}

fn token() -> impl Strategy<Value = String> {
    prop_oneof![Just("keep-alive".to_string()), Just("TE".to_string()), Just("foo".to_string()), Just("x-bar".to_string()), "[a-zA-Z][a-zA-Z0-9-]{0,6}"]
}

fn spelling(required_not: &'static str) -> impl Strategy<Value = ListSpelling> {
    (
        proptest::collection::vec(token(), 0..3),
        proptest::collection::vec(token(), 0..3),
        any::<u16>(),
        proptest::collection::vec(0u8..4, 8),
        proptest::collection::vec(prop::bool::weighted(0.25), 8),
    )
        .prop_map(move |(before, after, case_bits, ws, line_breaks)| {
            let clean = |v: Vec<String>| v.into_iter().filter(|t| !t.eq_ignore_ascii_case(required_not) && !t.eq_ignore_ascii_case("close")).collect::<Vec<_>>();
            ListSpelling { before: clean(before), after: clean(after), case_bits, ws, line_breaks }
        })
}

fn key_bytes() -> impl Strategy<Value = Vec<u8>> {
    prop_oneof![
        4 => proptest::collection::vec(any::<u8>(), 16).prop_map(|b| b64_std(&b).into_bytes()),
        1 => Just(b"dGhlIHNhbXBsZSBub25jZQ==".to_vec()),
        2 => "[!-~]([ -~]{0,40}[!-~])?".prop_map(|s| s.into_bytes()),
        1 => "[!-~]{100,300}".prop_map(|s| s.into_bytes()),
        1 => proptest::collection::vec(prop_oneof![0x21u8..0x7f, 0x80u8..=0xff], 1..30),
    ]
}

fn ws_case() -> impl Strategy<Value = WsCase> {
    fn elem<T: std::fmt::Debug + Clone + 'static>(s: impl Strategy<Value = T> + 'static) -> impl Strategy<Value = Elem<T>> {
        prop_oneof![10 => s.prop_map(Elem::Good), 1 => Just(Elem::Missing), 1 => (0u8..6).prop_map(Elem::Wrong)]
    }
    (
        key_bytes(),
        elem(spelling("upgrade")),
        elem(spelling("websocket")),
        elem(Just(())),
        prop::bool::weighted(0.9),
        prop_oneof![
            3 => proptest::collection::vec(any::<u8>(), 0..200),
            1 => proptest::collection::vec(any::<u8>(), 0..70000),
            1 => Just(vec![0x00, 0xff, 0x0d, 0x0a, 0x0d, 0x0a, 0x81, 0x00]),
            1 => (1usize..262144).prop_map(|n| (0..n).map(|i| (i * 7 + i / 251) as u8).collect()),
        ],
        proptest::collection::vec(0u16..1000, 0..5),
        0u8..3,
        any::<bool>(),
    )
        .prop_map(|(key, connection, upgrade, version, key_present, payload, payload_cuts, name_case, extra_headers)| WsCase {
            key,
            connection,
            upgrade,
            version,
            key_present,
            payload,
            payload_cuts,
            name_case,
            extra_headers,
        })
}

fn cased(word: &str, bits: u16) -> String {
    word.chars().enumerate().map(|(i, c)| if bits & (1 << (i % 16)) != 0 { c.to_ascii_uppercase() } else { c.to_ascii_lowercase() }).collect()
}

/// render a token list as one or more header lines
fn render_list(name: &str, required: &str, s: &ListSpelling) -> Vec<String> {
    let mut tokens: Vec<String> = s.before.clone();
    tokens.push(cased(required, s.case_bits));
    tokens.extend(s.after.iter().cloned());
    let mut lines: Vec<String> = vec![];
    let mut cur = String::new();
    for (i, t) in tokens.iter().enumerate() {
        if i > 0 {
            if s.line_breaks[i % s.line_breaks.len()] {
                lines.push(cur);
                cur = String::new();
            } else {
                let w = |k: u8| match k % 4 {
                    0 => "",
                    1 => " ",
                    2 => "\t",
                    _ => "  ",
                };
                cur.push_str(w(s.ws[i % s.ws.len()]));
                cur.push(',');
                cur.push_str(w(s.ws[(i + 3) % s.ws.len()]));
            }
        }
        cur.push_str(t);
    }
    lines.push(cur);
    lines.into_iter().map(|l| format!("{}: {}\r\n", name, l)).collect()
}

fn hname(base: &str, k: u8) -> String {
    match k % 3 {
        0 => base.to_string(),
        1 => base.to_lowercase(),
        _ => base.to_uppercase(),
    }
}

fn build_handshake(c: &WsCase) -> (Vec<u8>, bool, Vec<&'static str>) {
    let mut req = b"GET /ws HTTP/1.1\r\nHost: verif\r\n".to_vec();
    let mut all_good = true;
    let mut defects = vec![];
    if c.extra_headers {
        req.extend_from_slice(b"Origin: http://example.test\r\nSec-WebSocket-Protocol: chat\r\nUser-Agent: verif\r\n");
    }
    match &c.connection {
        Elem::Good(s) => {
            for l in render_list(&hname("Connection", c.name_case), "upgrade", s) {
                req.extend_from_slice(l.as_bytes());
            }
        }
        Elem::Missing => {
            all_good = false;
            defects.push("connection-missing");
        }
        Elem::Wrong(k) => {
            all_good = false;
            defects.push("connection-wrong");
            let v = ["close", "keep-alive", "upgraded", "up grade", "keep-alive, close", "websocket"][*k as usize % 6];
            req.extend_from_slice(format!("Connection: {}\r\n", v).as_bytes());
        }
    }
    match &c.upgrade {
        Elem::Good(s) => {
            for l in render_list(&hname("Upgrade", c.name_case), "websocket", s) {
                req.extend_from_slice(l.as_bytes());
            }
        }
        Elem::Missing => {
            all_good = false;
            defects.push("upgrade-missing");
        }
        Elem::Wrong(k) => {
            all_good = false;
            defects.push("upgrade-wrong");
            let v = ["h2c", "websockets", "web socket", "TLS/1.0", "websocket2", "upgrade"][*k as usize % 6];
            req.extend_from_slice(format!("Upgrade: {}\r\n", v).as_bytes());
        }
    }
    match &c.version {
        Elem::Good(()) => req.extend_from_slice(format!("{}: 13\r\n", hname("Sec-WebSocket-Version", c.name_case)).as_bytes()),
        Elem::Missing => {
            all_good = false;
            defects.push("version-missing");
        }
        Elem::Wrong(k) => {
            all_good = false;
            defects.push("version-wrong");
            let v = ["8", "12", "14", "013", "13.0", "1 3"][*k as usize % 6];
            req.extend_from_slice(format!("Sec-WebSocket-Version: {}\r\n", v).as_bytes());
        }
    }
    if c.key_present {
        req.extend_from_slice(format!("{}: ", hname("Sec-WebSocket-Key", c.name_case)).as_bytes());
        req.extend_from_slice(&c.key);
        req.extend_from_slice(b"\r\n");
    } else {
        all_good = false;
        defects.push("key-missing");
    }
    req.extend_from_slice(b"\r\n");
    (req, all_good, defects)
}

struct Live {
    addr: std::net::SocketAddr,
    server: dropshot::HttpServer<WsCtx>,
    tls: bool,
}

/// send the payload in pieces and read the echo back over any byte stream
async fn echo_exchange<S: tokio::io::AsyncRead + tokio::io::AsyncWrite + Unpin + Send + 'static>(stream: S, pre: Vec<u8>, payload: Vec<u8>, cuts: Vec<usize>) -> Vec<u8> {
    let (mut rd, mut wr) = tokio::io::split(stream);
    let want = payload.len();
    let writer = tokio::spawn(async move {
        let mut cuts = cuts;
        cuts.sort();
        cuts.dedup();
        let mut prev = 0;
        for cpos in cuts.into_iter().chain(std::iter::once(payload.len())) {
            if cpos > prev {
                if wr.write_all(&payload[prev..cpos]).await.is_err() {
                    return None;
                }
                let _ = wr.flush().await;
                tokio::task::yield_now().await;
                prev = cpos;
            }
        }
        Some(wr)
    });
    let mut got = pre;
    let mut buf = vec![0u8; 65536];
    let deadline = tokio::time::Instant::now() + Duration::from_secs(20);
    while got.len() < want {
        match tokio::time::timeout_at(deadline, rd.read(&mut buf)).await {
            Err(_) => break,
            Ok(Ok(0)) => break,
            Ok(Ok(n)) => got.extend_from_slice(&buf[..n]),
            Ok(Err(_)) => break,
        }
    }
    if let Ok(Some(mut wr)) = writer.await {
        let _ = wr.shutdown().await;
    }
    got
}

enum Transport {
    Plain(tokio::net::TcpStream),
    Tls(Box<tokio_rustls::client::TlsStream<tokio::net::TcpStream>>),
}

fn check_ws(live: &Live, rt: &tokio::runtime::Runtime, c: &WsCase, st: &mut Stats) -> Result<(), Failure> {
    let (req, all_good, defects) = build_handshake(c);
    let ctx = live.server.app_private();
    let shown = truncate(&String::from_utf8_lossy(&req), 600);
    rt.block_on(async {
        let before = ctx.entered.load(Ordering::SeqCst);
        let tcp = tokio::net::TcpStream::connect(live.addr).await.map_err(|e| Failure::new("connect", e.to_string()))?;
        tcp.set_nodelay(true).ok();
        let mut transport = if live.tls {
            let connector = crate::tls::connector();
            Transport::Tls(Box::new(crate::tls::handshake(&connector, tcp).await.map_err(|e| Failure::new("tls-handshake", e.to_string()))?))
        } else {
            Transport::Plain(tcp)
        };
        let mut pre: Vec<u8> = vec![];
        let outcome = match &mut transport {
            Transport::Plain(s) => {
                s.write_all(&req).await.map_err(|e| Failure::new("send", e.to_string()))?;
                http1::read_response_from(s, &mut pre, false, Duration::from_secs(10)).await
            }
            Transport::Tls(s) => {
                s.write_all(&req).await.map_err(|e| Failure::new("send", e.to_string()))?;
                s.flush().await.ok();
                http1::read_response_from(s.as_mut(), &mut pre, false, Duration::from_secs(10)).await
            }
        };
        let resp = match outcome.resp() {
            Ok(r) => r,
            Err(e) => fail!("no-response", "handshake {:?}: {}", shown, e),
        };
        st.eval();
        let canonical = |e: &Elem<ListSpelling>| match e {
            Elem::Good(s) => s.before.is_empty() && s.after.is_empty(),
            _ => true,
        };
        if !(all_good && canonical(&c.connection) && canonical(&c.upgrade)) {
            st.nontrivial(hash_of(&req));
        }
        if all_good {
            st.count("positive");
            let multi = |e: &Elem<ListSpelling>| match e {
                Elem::Good(s) => s.before.len() + s.after.len() > 0,
                _ => false,
            };
            if multi(&c.connection) {
                st.count("positive_connection_list");
            }
            ensure!(
                resp.status == 101,
                "valid-handshake-refused",
                "a handshake with Connection: upgrade, Upgrade: websocket, version 13 and a key must get 101, got {} {} -- request: {:?}",
                resp.status,
                truncate(&resp.body_text(), 150),
                shown
            );
            let want = accept_for(&c.key);
            ensure!(
                resp.header("sec-websocket-accept").as_deref() == Some(want.as_str()),
                "wrong-accept-digest",
                "key {:?}: Sec-WebSocket-Accept {:?}, RFC 6455 digest is {}",
                String::from_utf8_lossy(&c.key),
                resp.header("sec-websocket-accept"),
                want
            );
            ensure!(resp.header("x-request-id").map(|i| !i.is_empty()).unwrap_or(false), "request-id-missing-on-101", "the 101 response carries no x-request-id");
            ensure!(
                resp.header("upgrade").map(|u| u.eq_ignore_ascii_case("websocket")).unwrap_or(false)
                    && resp.header("connection").map(|u| u.to_ascii_lowercase().contains("upgrade")).unwrap_or(false),
                "response-headers",
                "101 response must carry Upgrade: websocket and Connection: Upgrade: {:?}",
                resp.headers.iter().map(|(n, v)| format!("{}: {}", n, String::from_utf8_lossy(v))).collect::<Vec<_>>()
            );
            // payload echo
            let cuts: Vec<usize> = c.payload_cuts.iter().map(|x| (*x as usize) * c.payload.len() / 1000).collect();
            let got = match transport {
                Transport::Plain(s) => echo_exchange(s, pre, c.payload.clone(), cuts).await,
                Transport::Tls(s) => echo_exchange(*s, pre, c.payload.clone(), cuts).await,
            };
            ensure!(
                got == c.payload,
                "payload-not-echoed",
                "[{}] after the upgrade {} payload bytes were sent, {} came back (first difference at {:?})",
                if live.tls { "https" } else { "http" },
                c.payload.len(),
                got.len(),
                got.iter().zip(c.payload.iter()).position(|(a, b)| a != b)
            );
            // the channel handler ran exactly once for this connection
            let mut waited = 0;
            while ctx.entered.load(Ordering::SeqCst) < before + 1 && waited < 5000 {
                tokio::time::sleep(Duration::from_micros(200)).await;
                waited += 1;
            }
            ensure!(ctx.entered.load(Ordering::SeqCst) == before + 1, "handler-entry-count", "channel handler entries moved by {}", ctx.entered.load(Ordering::SeqCst) - before);
        } else {
            st.count("negative");
            for d in &defects {
                st.count(&format!("defect:{}", d));
            }
            ensure!(
                (400..500).contains(&resp.status),
                format!("invalid-handshake-status:{}", defects.join("+")),
                "handshake lacking {:?} must get a 4xx, got {} -- request: {:?}",
                defects,
                resp.status,
                shown
            );
            tokio::time::sleep(Duration::from_micros(300)).await;
            ensure!(
                ctx.entered.load(Ordering::SeqCst) == before,
                format!("invalid-handshake-upgraded:{}", defects.join("+")),
                "handshake lacking {:?}: the channel handler ran",
                defects
            );
        }
        st.sample(|| json!({"request": shown, "status": resp.status, "accept": resp.header("sec-websocket-accept")}));
        Ok(())
    })
}

#[derive(Clone, Debug, Serialize, Deserialize)]
struct BurstCase {
    tls: bool,
    /// how long the client waits after the handler has flushed before it starts reading
    read_delay_ms: u16,
    read_buf: u32,
}

/// server -> client under backpressure: the client does not read until the handler has written as
/// much as the connection would take and has flushed; then every byte written must arrive
fn check_burst(live: &Live, rt: &tokio::runtime::Runtime, c: &BurstCase, st: &mut Stats) -> Result<(), Failure> {
    let ctx = live.server.app_private();
    ctx.burst_written.store(0, Ordering::SeqCst);
    let key = b"dGhlIHNhbXBsZSBub25jZQ==";
    let req = format!("GET /wsburst HTTP/1.1\r\nHost: verif\r\nConnection: upgrade\r\nUpgrade: websocket\r\nSec-WebSocket-Version: 13\r\nSec-WebSocket-Key: {}\r\n\r\n", String::from_utf8_lossy(key)).into_bytes();
    let how = if live.tls { "https" } else { "http" };
    rt.block_on(async {
        let tcp = tokio::net::TcpStream::connect(live.addr).await.map_err(|e| Failure::new("connect", e.to_string()))?;
        let mut pre: Vec<u8> = vec![];
        async fn run<S: tokio::io::AsyncRead + tokio::io::AsyncWrite + Unpin>(s: &mut S, req: &[u8], pre: &mut Vec<u8>, ctx: &WsCtx, c: &BurstCase, how: &str, st: &mut Stats) -> Result<(), Failure> {
            s.write_all(req).await.map_err(|e| Failure::new("send", e.to_string()))?;
            s.flush().await.ok();
            let resp = http1::read_response_from(s, pre, false, Duration::from_secs(10)).await.resp().map_err(|e| Failure::new("no-response", e))?;
            ensure!(resp.status == 101, "valid-handshake-refused", "[{}] plain valid handshake to /wsburst got {}", how, resp.status);
            // do not read: wait until the handler has stopped writing and has flushed
            let mut waited = 0;
            while ctx.burst_written.load(Ordering::SeqCst) == 0 {
                tokio::time::sleep(Duration::from_millis(5)).await;
                waited += 1;
                ensure!(waited < 12000, "harness-burst", "the burst handler never got to its flush");
            }
            let total = ctx.burst_written.load(Ordering::SeqCst);
            tokio::time::sleep(Duration::from_millis(c.read_delay_ms as u64)).await;
            st.eval();
            st.count_n("burst_bytes", total);
            if total > 65536 {
                st.nontrivial(hash_of(&format!("{:?}{}", c, total)));
                st.count("bursts_with_backpressure");
            }
            let mut got: u64 = 0;
            let mut check = |chunk: &[u8], got: &mut u64| -> Result<(), Failure> {
                for b in chunk {
                    ensure!(*b == burst_byte(*got), "burst-bytes-corrupted", "[{}] byte {} of the burst is {:#x}, written as {:#x}", how, got, b, burst_byte(*got));
                    *got += 1;
                }
                Ok(())
            };
            let lead = pre.clone();
            check(&lead, &mut got)?;
            let mut buf = vec![0u8; (c.read_buf as usize).clamp(1, 1 << 20)];
            let deadline = tokio::time::Instant::now() + Duration::from_secs(30);
            while got < total {
                match tokio::time::timeout_at(deadline, s.read(&mut buf)).await {
                    Ok(Ok(n)) if n > 0 => check(&buf[..n], &mut got)?,
                    _ => break,
                }
            }
            ensure!(
                got == total,
                "burst-bytes-lost",
                "[{}] the channel handler wrote {} bytes and flushed, then waited for the peer; only {} arrived ({} missing)",
                how,
                total,
                got,
                total - got
            );
            let _ = s.write_all(b"k").await;
            let _ = s.flush().await;
            st.sample(|| json!({"transport": how, "bytes_written_before_flush": total, "arrived": got}));
            Ok(())
        }
        if live.tls {
            let connector = crate::tls::connector();
            let mut s = crate::tls::handshake(&connector, tcp).await.map_err(|e| Failure::new("tls-handshake", e.to_string()))?;
            run(&mut s, &req, &mut pre, ctx, c, how, st).await
        } else {
            let mut s = tcp;
            run(&mut s, &req, &mut pre, ctx, c, how, st).await
        }
    })
}

pub fn run(ctx: &mut Ctx) {
    // self-test of the digest against RFC 6455 section 1.3
    if accept_for(b"dGhlIHNhbXBsZSBub25jZQ==") != "s3pPLMBiTxaQ9kYGzzhZRbK+xOo=" || sha1(b"abc")[..4] != [0xa9, 0x99, 0x3e, 0x36] {
        ctx.harness_error("own SHA-1/base64 fails the RFC test vector".into());
        return;
    }
    ctx.rule = "handshakes over raw TCP: key = any non-empty header-legal byte string; Connection and Upgrade values as token lists with random case of the required token, extra tokens before/after, OWS (SP/HTAB) around commas, optionally split over several header lines; each of the four elements good / missing / wrong; post-upgrade payloads up to 256 KiB with arbitrary write splits. Oracle: all four present => 101, Sec-WebSocket-Accept == own SHA-1/base64 digest, handler entered once, bytes echoed unmodified; phase burst_then_flush: the handler writes a position-dependent pattern until the connection takes no more (the client is not reading), flushes and waits - every byte written before the flush must arrive, plain and TLS; anything missing or wrong => 4xx and handler not entered. non-trivial = every negative case and every positive case whose lists are not the single-token spelling; distinct by request bytes".into();
    ctx.assume("empty key values are not generated (whether an empty value 'carries a key' is not stated)");
    ctx.max_shrink_iters = 500;
    let srt = tokio::runtime::Builder::new_multi_thread().worker_threads(3).enable_all().build().unwrap();
    let rt = tokio::runtime::Builder::new_multi_thread().worker_threads(2).enable_all().build().unwrap();
    let live = {
        let _g = srt.enter();
        let server = start_server(ws_api(), WsCtx::default(), Default::default(), None).expect("server");
        Live { addr: server.local_addr(), server, tls: false }
    };
    let live_tls = {
        let _g = srt.enter();
        let server = crate::dynapi::start_server_tls(ws_api(), WsCtx::default(), Default::default()).expect("https server");
        Live { addr: server.local_addr(), server, tls: true }
    };
    let n = ctx.tier.pick(4000, 60000);
    ctx.phase("handshakes", n, ws_case(), |c, st| check_ws(&live, &rt, c, st));
    ctx.require_frac("handshakes", "positive", "positive", 1.0);
    ctx.require_frac("handshakes", "negative", "positive", 0.1);
    ctx.require_frac("handshakes", "positive_connection_list", "positive", 0.3);
    // the HTTPS accept path serves connections through separate code: same property over TLS
    let n = ctx.tier.pick(600, 8000);
    ctx.phase("handshakes_https", n, ws_case(), |c, st| check_ws(&live_tls, &rt, c, st));
    // server -> client under backpressure, plain and TLS
    let n = ctx.tier.pick(6u64, 60);
    let cases: Vec<BurstCase> = (0..n)
        .map(|i| {
            let r = splitmix64(ctx.seed ^ (i << 8) ^ 0xb5);
            BurstCase { tls: i % 2 == 1, read_delay_ms: if i < 2 { 0 } else { (r % 200) as u16 }, read_buf: if i < 4 { 65536 } else { 1 + ((r >> 16) % 200000) as u32 } }
        })
        .collect();
    ctx.enumerate("burst_then_flush", cases, false, |c, st| {
        st.count(if c.tls { "burst_https" } else { "burst_http" });
        check_burst(if c.tls { &live_tls } else { &live }, &rt, c, st)
    });
    let _ = srt.block_on(live.server.close());
    let _ = srt.block_on(live_tls.server.close());
}
