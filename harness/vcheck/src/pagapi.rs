//! Paginated harness endpoints shared by C14 and C15: keyset pagination over
//! the collection 0..n built from the framework pieces under test
//! (`PaginationParams`, `page_limit`, `ResultsPage::new`).

use dropshot::{
    endpoint, ApiDescription, HttpError, HttpResponseOk, PaginationOrder, PaginationParams, Query, RequestContext,
    ResultsPage, WhichPage,
};
use schemars::JsonSchema;
use serde::{Deserialize, Serialize};
use std::sync::atomic::{AtomicU64, Ordering};

#[derive(Default)]
pub struct PagCtx {
    pub entered: AtomicU64,
}

#[derive(Clone, Debug, Deserialize, Serialize, JsonSchema)]
pub struct ScanP {
    pub n: u32,
    pub order: Option<PaginationOrder>,
    /// filler that ends up in the token (to vary token sizes)
    pub pad: Option<String>,
}

#[derive(Clone, Debug, Deserialize, Serialize, PartialEq)]
pub struct ScanSel {
    pub n: u32,
    pub order: PaginationOrder,
    pub last: u32,
    pub pad: Option<String>,
}

#[derive(Clone, Debug, Deserialize, Serialize, JsonSchema)]
pub struct Item {
    pub v: u32,
}

#[endpoint { method = GET, path = "/items" }]
async fn vp_items(
    rq: RequestContext<PagCtx>,
    q: Query<PaginationParams<ScanP, ScanSel>>,
) -> Result<HttpResponseOk<ResultsPage<Item>>, HttpError> {
    rq.context().entered.fetch_add(1, Ordering::SeqCst);
    let p = q.into_inner();
    let limit = rq.page_limit(&p)?.get() as u64;
    let (n, order, last, pad) = match &p.page {
        WhichPage::First(s) => (s.n, s.order.unwrap_or(PaginationOrder::Ascending), None, s.pad.clone()),
        WhichPage::Next(s) => (s.n, s.order, Some(s.last), s.pad.clone()),
    };
    let items: Vec<Item> = match order {
        PaginationOrder::Ascending => {
            let start = last.map(|l| l as u64 + 1).unwrap_or(0);
            (start..n as u64).take(limit as usize).map(|v| Item { v: v as u32 }).collect()
        }
        PaginationOrder::Descending => {
            let start = last.map(|l| l as i64 - 1).unwrap_or(n as i64 - 1);
            (0..=start).rev().take(limit as usize).map(|v| Item { v: v as u32 }).collect()
        }
    };
    let scan = ();
    Ok(HttpResponseOk(ResultsPage::new(items, &scan, |it: &Item, _| ScanSel { n, order, last: it.v, pad: pad.clone() })?))
}

#[derive(Serialize, JsonSchema)]
pub struct LimitOut {
    pub limit: u32,
    pub which: String,
}

#[endpoint { method = GET, path = "/limit" }]
async fn vp_limit(rq: RequestContext<PagCtx>, q: Query<PaginationParams<ScanP, ScanSel>>) -> Result<HttpResponseOk<LimitOut>, HttpError> {
    rq.context().entered.fetch_add(1, Ordering::SeqCst);
    let p = q.into_inner();
    let limit = rq.page_limit(&p)?.get();
    if std::env::var("VERIF_DEBUG").is_ok() {
        eprintln!("DEBUG cfg default={:?} max={:?} p={:?}", rq.server.config.page_default_nitems, rq.server.config.page_max_nitems, p);
    }
    Ok(HttpResponseOk(LimitOut {
        limit,
        which: match &p.page {
            WhichPage::First(_) => "first".into(),
            WhichPage::Next(s) => format!("next:{}", serde_json::to_string(s).unwrap()),
        },
    }))
}

pub fn pag_api() -> ApiDescription<PagCtx> {
    let mut api = ApiDescription::new();
    api.register(vp_items).unwrap();
    api.register(vp_limit).unwrap();
    api
}
