//! C11 — request bodies larger than the limit are never delivered.

use crate::core::*;
use crate::dynapi::start_server;
use crate::echoapi::fnv;
use crate::http1;
use crate::{ensure, fail};
use dropshot::{
    ApiDescription, ApiEndpoint, ApiEndpointVersions, HttpError, HttpResponseOk, RequestContext, StreamingBody, TypedBody,
    UntypedBody,
};
use futures::StreamExt;
use proptest::prelude::*;
use serde::{Deserialize, Serialize};
use serde_json::{json, Value};
use std::sync::atomic::{AtomicU64, Ordering};
use std::time::Duration;

#[derive(Default)]
pub struct LimitCtx {
    pub entered_typed: AtomicU64,
    pub entered_untyped: AtomicU64,
    pub entered_stream: AtomicU64,
    /// largest running byte total any streaming handler observed
    pub max_stream_total: AtomicU64,
    /// largest body any buffered handler observed
    pub max_buffered: AtomicU64,
}

async fn l_typed(rq: RequestContext<LimitCtx>, b: TypedBody<Value>) -> Result<HttpResponseOk<Value>, HttpError> {
    rq.context().entered_typed.fetch_add(1, Ordering::SeqCst);
    let v = b.into_inner();
    let text = serde_json::to_string(&v).unwrap();
    rq.context().max_buffered.fetch_max(text.len() as u64, Ordering::SeqCst);
    Ok(HttpResponseOk(json!({"len": text.len(), "fnv": fnv(text.as_bytes()).to_string(), "limit": rq.request_body_max_bytes()})))
}
async fn l_untyped(rq: RequestContext<LimitCtx>, b: UntypedBody) -> Result<HttpResponseOk<Value>, HttpError> {
    rq.context().entered_untyped.fetch_add(1, Ordering::SeqCst);
    rq.context().max_buffered.fetch_max(b.as_bytes().len() as u64, Ordering::SeqCst);
    Ok(HttpResponseOk(json!({"len": b.as_bytes().len(), "fnv": fnv(b.as_bytes()).to_string(), "limit": rq.request_body_max_bytes()})))
}
async fn l_stream(rq: RequestContext<LimitCtx>, b: StreamingBody) -> Result<HttpResponseOk<Value>, HttpError> {
    rq.context().entered_stream.fetch_add(1, Ordering::SeqCst);
    let mut all: Vec<u8> = vec![];
    let s = b.into_stream();
    tokio::pin!(s);
    while let Some(chunk) = s.next().await {
        let chunk = chunk?;
        all.extend_from_slice(&chunk);
        rq.context().max_stream_total.fetch_max(all.len() as u64, Ordering::SeqCst);
    }
    Ok(HttpResponseOk(json!({"len": all.len(), "fnv": fnv(&all).to_string(), "limit": rq.request_body_max_bytes()})))
}
#[derive(Deserialize, schemars::JsonSchema)]
struct RestPath {
    #[allow(dead_code)]
    rest: Vec<String>,
}
/// the same three handlers behind a wildcard route (reached with an empty or a non-empty remainder)
async fn lw_typed(rq: RequestContext<LimitCtx>, _p: dropshot::Path<RestPath>, b: TypedBody<Value>) -> Result<HttpResponseOk<Value>, HttpError> {
    l_typed(rq, b).await
}
async fn lw_untyped(rq: RequestContext<LimitCtx>, _p: dropshot::Path<RestPath>, b: UntypedBody) -> Result<HttpResponseOk<Value>, HttpError> {
    l_untyped(rq, b).await
}
async fn lw_stream(rq: RequestContext<LimitCtx>, _p: dropshot::Path<RestPath>, b: StreamingBody) -> Result<HttpResponseOk<Value>, HttpError> {
    l_stream(rq, b).await
}
async fn l_health(_rq: RequestContext<LimitCtx>) -> Result<HttpResponseOk<String>, HttpError> {
    Ok(HttpResponseOk("ok".into()))
}

const DEFAULTS: [usize; 7] = [0, 1, 7, 64, 1024, 4096, 65536];
const OVERRIDES: [Option<usize>; 7] = [None, Some(0), Some(1), Some(10), Some(100), Some(5000), Some(100000)];

fn limit_api(ov: Option<usize>) -> ApiDescription<LimitCtx> {
    let mut api = ApiDescription::new();
    let mut t = ApiEndpoint::new("l_typed".into(), l_typed, http::Method::PUT, "application/json", "/typed", ApiEndpointVersions::All);
    let mut u = ApiEndpoint::new("l_untyped".into(), l_untyped, http::Method::PUT, "application/octet-stream", "/untyped", ApiEndpointVersions::All);
    let mut s = ApiEndpoint::new("l_stream".into(), l_stream, http::Method::PUT, "application/octet-stream", "/stream", ApiEndpointVersions::All);
    if let Some(n) = ov {
        t = t.request_body_max_bytes(n);
        u = u.request_body_max_bytes(n);
        s = s.request_body_max_bytes(n);
    }
    api.register(t).unwrap();
    api.register(u).unwrap();
    api.register(s).unwrap();
    let mut wt = ApiEndpoint::new("lw_typed".into(), lw_typed, http::Method::PUT, "application/json", "/wtyped/{rest:.*}", ApiEndpointVersions::All);
    let mut wu = ApiEndpoint::new("lw_untyped".into(), lw_untyped, http::Method::PUT, "application/octet-stream", "/wuntyped/{rest:.*}", ApiEndpointVersions::All);
    let mut ws = ApiEndpoint::new("lw_stream".into(), lw_stream, http::Method::PUT, "application/octet-stream", "/wstream/{rest:.*}", ApiEndpointVersions::All);
    if let Some(n) = ov {
        wt = wt.request_body_max_bytes(n);
        wu = wu.request_body_max_bytes(n);
        ws = ws.request_body_max_bytes(n);
    }
    api.register(wt).unwrap();
    api.register(wu).unwrap();
    api.register(ws).unwrap();
    api.register(ApiEndpoint::new("l_health".into(), l_health, http::Method::GET, "application/json", "/health", ApiEndpointVersions::All)).unwrap();
    api
}

#[derive(Clone, Debug, Serialize, Deserialize)]
pub enum LenChoice {
    /// L + delta, delta in -2..=2
    Near(i8),
    Zero,
    Double,
    /// arbitrary length up to 1 MiB
    Far(u32),
    /// a little above the limit (L + 3 ..= L + 300)
    Above(u16),
}

#[derive(Clone, Debug, Serialize, Deserialize)]
pub enum ChunkPlan {
    ContentLength,
    /// one chunk boundary at L + delta, rest in `rest`-sized chunks
    BoundaryAt(i8, u16),
    Fixed(u16),
    Mixed(Vec<u16>),
}

#[derive(Clone, Debug, Serialize, Deserialize)]
pub struct LimitCase {
    pub default_ix: u8,
    pub override_ix: u8,
    /// 0 typed, 1 untyped, 2 streaming
    pub extractor: u8,
    pub len: LenChoice,
    pub plan: ChunkPlan,
    pub cuts: Vec<u16>,
    pub fill: u8,
    /// 0: the plain route; 1: a wildcard route with a non-empty remainder; 2: a wildcard route reached
    /// through its empty remainder; 3: the same with a trailing slash
    #[serde(default)]
    pub route: u8,
}

fn limit_case_strategy() -> impl Strategy<Value = LimitCase> {
    (
        0u8..7,
        0u8..7,
        0u8..3,
        prop_oneof![
            6 => (-2i8..=2).prop_map(LenChoice::Near),
            1 => Just(LenChoice::Zero),
            1 => Just(LenChoice::Double),
            2 => (0u32..(1 << 20)).prop_map(LenChoice::Far),
            2 => (3u16..300).prop_map(LenChoice::Above),
        ],
        prop_oneof![
            3 => Just(ChunkPlan::ContentLength),
            3 => (-2i8..=2, 1u16..5000).prop_map(|(d, r)| ChunkPlan::BoundaryAt(d, r)),
            2 => (1u16..9000).prop_map(ChunkPlan::Fixed),
            1 => proptest::collection::vec(1u16..3000, 1..5).prop_map(ChunkPlan::Mixed),
        ],
        proptest::collection::vec(0u16..1000, 0..4),
        any::<u8>(),
        prop_oneof![3 => Just(0u8), 1 => Just(1u8), 2 => Just(2u8), 1 => Just(3u8)],
    )
        .prop_map(|(default_ix, override_ix, extractor, len, plan, cuts, fill, route)| LimitCase { default_ix, override_ix, extractor, len, plan, cuts, fill, route })
}

fn body_of(extractor: u8, len: usize, fill: u8) -> Vec<u8> {
    if extractor == 0 {
        // a JSON document of exactly `len` bytes
        match len {
            0 => vec![],
            1 => b"7".to_vec(),
            n => {
                let mut v = Vec::with_capacity(n);
                v.push(b'"');
                for i in 0..(n - 2) {
                    v.push(b'a' + ((i as u8).wrapping_add(fill) % 26));
                }
                v.push(b'"');
                v
            }
        }
    } else {
        (0..len).map(|i| (i as u8).wrapping_mul(31).wrapping_add(fill)).collect()
    }
}

fn chunked(body: &[u8], plan: &ChunkPlan, limit: usize) -> Vec<u8> {
    let mut sizes: Vec<usize> = vec![];
    match plan {
        ChunkPlan::ContentLength => unreachable!(),
        ChunkPlan::BoundaryAt(d, rest) => {
            let first = (limit as i64 + *d as i64).max(1) as usize;
            sizes.push(first);
            sizes.push(*rest as usize);
        }
        ChunkPlan::Fixed(n) => sizes.push(*n as usize),
        ChunkPlan::Mixed(v) => sizes.extend(v.iter().map(|x| *x as usize)),
    }
    // first size once, then cycle through the rest
    let mut out = vec![];
    let mut pos = 0;
    let mut i = 0;
    while pos < body.len() {
        let want = match plan {
            ChunkPlan::BoundaryAt(..) => {
                if i == 0 {
                    sizes[0]
                } else {
                    sizes[1]
                }
            }
            _ => sizes[i % sizes.len()],
        };
        i += 1;
        let n = want.max(1).min(body.len() - pos);
        out.extend_from_slice(format!("{:x}\r\n", n).as_bytes());
        out.extend_from_slice(&body[pos..pos + n]);
        out.extend_from_slice(b"\r\n");
        pos += n;
    }
    out.extend_from_slice(b"0\r\n\r\n");
    out
}

fn check_limit(rt: &tokio::runtime::Runtime, c: &LimitCase, st: &mut Stats) -> Result<(), Failure> {
    let default = DEFAULTS[c.default_ix as usize % 7];
    let ov = OVERRIDES[c.override_ix as usize % 7];
    let limit = ov.unwrap_or(default);
    let mut len: usize = match &c.len {
        LenChoice::Near(d) => (limit as i64 + *d as i64).max(0) as usize,
        LenChoice::Zero => 0,
        LenChoice::Double => limit * 2,
        LenChoice::Far(n) => *n as usize,
        LenChoice::Above(n) => limit + *n as usize,
    };
    if c.extractor == 0 && len == 0 {
        len = 1; // an empty body is not JSON at all; that is not this property
    }
    let body = body_of(c.extractor, len, c.fill);
    let (path, op) = [("/typed", "typed"), ("/untyped", "untyped"), ("/stream", "stream")][c.extractor as usize % 3];
    let path = match c.route % 4 {
        0 => path.to_string(),
        1 => format!("/w{}/a/b", &path[1..]),
        2 => format!("/w{}", &path[1..]),
        _ => format!("/w{}/", &path[1..]),
    };
    let ct = if c.extractor == 0 { "application/json" } else { "application/octet-stream" };
    let mut req = format!("PUT {} HTTP/1.1\r\nhost: verif\r\ncontent-type: {}\r\n", path, ct).into_bytes();
    let is_chunked = !matches!(c.plan, ChunkPlan::ContentLength);
    if is_chunked {
        req.extend_from_slice(b"transfer-encoding: chunked\r\n\r\n");
        req.extend_from_slice(&chunked(&body, &c.plan, limit));
    } else {
        req.extend_from_slice(format!("content-length: {}\r\n\r\n", body.len()).as_bytes());
        req.extend_from_slice(&body);
    }
    let cuts: Vec<usize> = c.cuts.iter().map(|x| (*x as usize) * req.len() / 1000).collect();

    let server = {
        let _g = rt.enter();
        let cfg = dropshot::ConfigDropshot { default_request_body_max_bytes: default, ..Default::default() };
        start_server(limit_api(ov), LimitCtx::default(), cfg, None).map_err(|e| Failure::new("server-start", e))?
    };
    let addr = server.local_addr();
    let desc = format!(
        "server default {} / endpoint override {:?} => limit {}, PUT {}, {} body of {} bytes, {}",
        default,
        ov,
        limit,
        path,
        op,
        len,
        match &c.plan {
            ChunkPlan::ContentLength => "content-length".to_string(),
            p => format!("chunked {:?}", p),
        }
    );
    let result: Result<(), Failure> = rt.block_on(async {
        let mut conn = http1::Conn::connect(addr).await.map_err(|e| Failure::new("connect", e.to_string()))?;
        // the server may answer (and close) before the whole oversize body is written
        let _ = conn.send_split(&req, &cuts, 0).await;
        let resp = match conn.read_response(false, Duration::from_secs(20)).await.resp() {
            Ok(r) => r,
            Err(e) => fail!("no-response", "{}: {}", desc, e),
        };
        let ctx = server.app_private();
        let entered = [&ctx.entered_typed, &ctx.entered_untyped, &ctx.entered_stream][c.extractor as usize % 3].load(Ordering::SeqCst);
        let seen_stream = ctx.max_stream_total.load(Ordering::SeqCst);
        let seen_buf = ctx.max_buffered.load(Ordering::SeqCst);
        st.eval();
        st.count(&format!("extractor:{}", op));
        st.count(if len <= limit { "within" } else { "over" });
        let near = (len as i64 - limit as i64).abs() <= 2;
        let boundary_near = matches!(c.plan, ChunkPlan::BoundaryAt(..));
        if near {
            st.count("near_limit");
        }
        if near || (is_chunked && boundary_near) || (ov.is_some() && ov != Some(default)) {
            st.nontrivial(hash_of(&format!("{:?}", c)));
        }
        // no handler ever observes more than the limit
        ensure!(
            seen_stream <= limit as u64,
            "streaming-handler-saw-more-than-limit",
            "{}: the streaming handler observed {} bytes",
            desc,
            seen_stream
        );
        ensure!(seen_buf <= limit as u64, "buffered-handler-saw-more-than-limit", "{}: a buffered handler observed {} bytes", desc, seen_buf);
        if len <= limit {
            ensure!(
                resp.status == 200,
                format!("within-limit-refused:{}", op),
                "{}: body within the limit was refused: {} {}",
                desc,
                resp.status,
                truncate(&resp.body_text(), 200)
            );
            let j = resp.json().ok_or_else(|| Failure::new("echo-not-json", desc.clone()))?;
            ensure!(
                j["len"] == json!(len) && j["fnv"] == json!(fnv(&body).to_string()),
                format!("body-not-intact:{}", op),
                "{}: handler reports len {} fnv {}, sent len {} fnv {}",
                desc,
                j["len"],
                j["fnv"],
                len,
                fnv(&body)
            );
            ensure!(j["limit"] == json!(limit), "effective-limit", "{}: handler sees limit {}", desc, j["limit"]);
        } else {
            ensure!(
                (400..500).contains(&resp.status),
                format!("over-limit-status-{}:{}", resp.status, op),
                "{}: body over the limit must get a 4xx, got {} {}",
                desc,
                resp.status,
                truncate(&resp.body_text(), 200)
            );
            if c.extractor != 2 {
                ensure!(entered == 0, format!("over-limit-handler-ran:{}", op), "{}: buffered handler was entered", desc);
            }
        }
        // the server stays healthy
        let h = http1::oneshot(addr, &http1::build_request("GET", "/health", &[], None), false, Duration::from_secs(10))
            .await
            .map_err(|e| Failure::new("health-after", format!("{}: {}", desc, e)))?;
        ensure!(h.status == 200, "health-after", "{}: health {}", desc, h.status);
        st.sample(|| json!({"case": desc, "status": resp.status, "body": truncate(&resp.body_text(), 160)}));
        Ok(())
    });
    let _ = rt.block_on(server.close());
    result
}

pub fn run(ctx: &mut Ctx) {
    ctx.rule = "server default in {0,1,7,64,1024,4096,65536} x per-endpoint override in {none,0,1,10,100,5000,100000} x extractor in {TypedBody, UntypedBody, StreamingBody} x route shape (plain; wildcard route with non-empty / empty remainder) x body length in {0, L-2..L+2, 2L, L+3..L+300, up to 1 MiB} x framing (content-length; chunked with a chunk boundary at L-2..L+2, fixed or mixed chunk sizes) x TCP write splits. Oracle: len <= L => 200 with identical length and hash and the handler sees limit L; len > L => 4xx, buffered handler not entered; no handler (streaming: running total after every chunk) ever observes more than L bytes; server healthy afterwards. non-trivial = |len-L| <= 2, or a chunk boundary within 2 of L, or an override different from the default; distinct by case".into();
    ctx.assume("an empty body for the JSON extractor is replaced by a 1-byte body (an empty body is not JSON, which is not this property)");
    ctx.max_shrink_iters = 500;
    let rt = tokio::runtime::Builder::new_multi_thread().worker_threads(3).enable_all().build().unwrap();
    let n = ctx.tier.pick(12000, 150000);
    ctx.phase("limits", n, limit_case_strategy(), |c, st| check_limit(&rt, c, st));
    ctx.require_frac("limits", "within", "extractor:typed", 0.5);
    ctx.require_frac("limits", "over", "extractor:typed", 0.5);
    ctx.require_frac("limits", "near_limit", "extractor:typed", 0.5);
}
