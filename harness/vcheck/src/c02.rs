//! C02 — accepted registrations are unambiguous and reachable; conflicts
//! are rejected.  Registration *histories* over a deliberately tiny
//! alphabet so that about half the steps conflict.

use crate::core::*;
use crate::dynapi::*;
use crate::model::*;
use crate::{ensure, fail};
use dropshot::{ApiDescription, EndpointTagPolicy, TagConfig, TagDetails};
use proptest::prelude::*;
use serde::{Deserialize, Serialize};
use serde_json::json;
use std::collections::{BTreeSet, HashMap};

/// two extension methods in spellings that are not upper case: an endpoint registered for `report`
/// must be reachable by a `report` request (no two spellings of one name are generated, so nothing
/// is assumed about case folding)
const C02_METHODS: [&str; 5] = ["GET", "PUT", "POST", "report", "Purge"];

#[derive(Clone, Debug, Serialize, Deserialize, PartialEq)]
enum PathParams {
    /// exactly the template's variables with acceptable types
    Match,
    /// leave one variable out
    Missing(u16),
    /// one extra parameter that is not in the template
    Extra,
    /// one variable gets a non-scalar type
    NonScalar(u16, u8),
}

#[derive(Clone, Debug, Serialize, Deserialize)]
struct RegSpec {
    method: u8,
    /// segment codes: 0,1 = literals a,b; 2,3 = variables x,y; 4 = wildcard w; 5 = literal c
    segs: Vec<u8>,
    range: u16,
    path_params: PathParams,
    /// query parameters: (name index, kind index)
    query: Option<Vec<(u8, u8)>>,
    tags: Vec<u8>,
    visible: bool,
    trailing_slash: bool,
}

#[derive(Clone, Debug, Serialize, Deserialize)]
struct History {
    policy: u8,
    allow_other_tags: bool,
    steps: Vec<RegSpec>,
    /// step after which an intermediate full enumeration is done
    mid: u16,
}

const QUERY_NAMES: [&str; 4] = ["q", "x", "limit", "y"];
const TAGS: [&str; 3] = ["t1", "t2", "other"];
const QKINDS: [PKind; 10] = [PKind::Str, PKind::Int, PKind::Bool, PKind::StrArray, PKind::Object, PKind::DocEnum, PKind::OneOfMixed, PKind::RefScalar, PKind::RefObject, PKind::NullableRef];
const NONSCALAR: [PKind; 5] = [PKind::Object, PKind::ObjArray, PKind::StrArray, PKind::OneOfMixed, PKind::RefObject];
const SCALARS: [PKind; 6] = [PKind::Str, PKind::Int, PKind::Bool, PKind::DocEnum, PKind::RefScalar, PKind::NullableRef];

fn seg_of(code: u8) -> Seg {
    match code % 6 {
        0 => Seg::Lit("a".into()),
        1 => Seg::Lit("b".into()),
        2 => Seg::Var("x".into()),
        3 => Seg::Var("y".into()),
        4 => Seg::Wild("w".into()),
        _ => Seg::Lit("c".into()),
    }
}

fn reg_strategy() -> impl Strategy<Value = RegSpec> {
    let segs = (
        proptest::collection::vec(
            prop_oneof![6 => Just(0u8), 4 => Just(1u8), 6 => Just(2u8), 2 => Just(3u8), 1 => Just(4u8), 2 => Just(5u8)],
            0..4,
        ),
        prop::bool::weighted(0.25),
    )
        .prop_map(|(mut v, wild)| {
            if wild {
                if v.len() == 3 {
                    v.pop();
                }
                v.push(4);
            }
            v
        });
    let pp = prop_oneof![
        12 => Just(PathParams::Match),
        1 => any::<u16>().prop_map(PathParams::Missing),
        1 => Just(PathParams::Extra),
        1 => any::<(u16, u8)>().prop_map(|(a, b)| PathParams::NonScalar(a, b)),
    ];
    let query = prop_oneof![
        6 => Just(None),
        2 => proptest::collection::vec((0u8..4, 0u8..10), 0..3).prop_map(Some),
    ];
    (
        prop_oneof![5 => 0u8..3, 1 => 3u8..5],
        segs,
        any::<u16>(),
        pp,
        query,
        proptest::collection::vec(0u8..3, 0..3),
        prop::bool::weighted(0.8),
        prop::bool::weighted(0.15),
    )
        .prop_map(|(method, segs, range, path_params, query, tags, visible, trailing_slash)| RegSpec {
            method,
            segs,
            range,
            path_params,
            query,
            tags,
            visible,
            trailing_slash,
        })
}

fn history_strategy(max: usize) -> impl Strategy<Value = History> {
    (
        prop_oneof![6 => Just(0u8), 1 => Just(1u8), 1 => Just(2u8)],
        prop::bool::weighted(0.7),
        proptest::collection::vec(reg_strategy(), 1..=max),
        any::<u16>(),
    )
        .prop_map(|(policy, allow_other_tags, steps, mid)| History { policy, allow_other_tags, steps, mid })
}

struct Step {
    e: MEndpoint,
    path_spec: ParamSpec,
    query_spec: Option<ParamSpec>,
    tags: Vec<String>,
}

fn ranges_small() -> Vec<MRange> {
    // ranges over a 3-version sub-pool keep overlap likely
    let p = pool();
    let sub = vec![p[1].clone(), p[4].clone(), p[5].clone()];
    all_ranges(&sub)
}

fn interpret(r: &RegSpec, n: usize) -> Step {
    let segs: Vec<Seg> = r.segs.iter().map(|c| seg_of(*c)).collect();
    let ranges = ranges_small();
    let e = MEndpoint {
        op: format!("op{}", n),
        method: C02_METHODS[(r.method as usize) % C02_METHODS.len()].to_string(),
        trailing_slash: r.trailing_slash && !segs.is_empty(),
        segs,
        range: pick(r.range, &ranges).clone(),
        visible: r.visible,
    };
    // parameters follow the *set* of variable names in the template
    let mut names: Vec<(String, bool)> = vec![];
    for (n, w) in e.var_names() {
        if !names.iter().any(|(m, _)| m == &n) {
            names.push((n, w));
        }
    }
    let mut path_spec: ParamSpec =
        names.iter().enumerate().map(|(i, (n, w))| (n.clone(), if *w { PKind::StrArray } else { SCALARS[(r.range as usize + i) % 6] })).collect();
    match &r.path_params {
        PathParams::Match => {}
        PathParams::Missing(i) => {
            if !path_spec.is_empty() {
                let k = pick_idx(*i, path_spec.len());
                path_spec.remove(k);
            }
        }
        PathParams::Extra => path_spec.push(("zz_extra".into(), PKind::Str)),
        PathParams::NonScalar(i, k) => {
            if !path_spec.is_empty() {
                let ix = pick_idx(*i, path_spec.len());
                let is_wild = names[ix].1;
                // for the wildcard only clearly wrong shapes (objects)
                let kind = if is_wild { [PKind::Object, PKind::ObjArray][(*k as usize) % 2] } else { NONSCALAR[(*k as usize) % 5] };
                path_spec[ix].1 = kind;
            }
        }
    }
    let query_spec = r.query.as_ref().map(|q| {
        let mut out: ParamSpec = vec![];
        for (n, k) in q {
            let name = QUERY_NAMES[(*n as usize) % 4].to_string();
            if !out.iter().any(|(m, _)| m == &name) {
                out.push((name, QKINDS[(*k as usize) % 10]));
            }
        }
        out
    });
    let mut tags: Vec<String> = vec![];
    for t in &r.tags {
        let t = TAGS[(*t as usize) % 3].to_string();
        if !tags.contains(&t) {
            tags.push(t);
        }
    }
    Step { e, path_spec, query_spec, tags }
}

fn tag_config(h: &History) -> TagConfig {
    let mut tags = HashMap::new();
    tags.insert("t1".to_string(), TagDetails::default());
    tags.insert("t2".to_string(), TagDetails::default());
    TagConfig {
        allow_other_tags: h.allow_other_tags,
        policy: match h.policy % 3 {
            0 => EndpointTagPolicy::Any,
            1 => EndpointTagPolicy::AtLeastOne,
            _ => EndpointTagPolicy::ExactlyOne,
        },
        tags,
    }
}

/// Reasons (rule classes) for which the reference model says the endpoint
/// must be refused.  `None` in the tag position means "unspecified".
fn static_reasons(h: &History, s: &Step) -> (Vec<&'static str>, bool) {
    let mut reasons = vec![];
    let mut unspecified = false;
    let e = &s.e;
    // repeated variable name
    let names: Vec<String> = e.var_names().into_iter().map(|(n, _)| n).collect();
    let set: BTreeSet<&String> = names.iter().collect();
    if set.len() != names.len() {
        reasons.push("repeated-variable");
    }
    // segments after a wildcard
    if let Some(p) = e.segs.iter().position(|s| matches!(s, Seg::Wild(_))) {
        if p + 1 != e.segs.len() {
            reasons.push("segment-after-wildcard");
        }
    }
    // parameters vs variables
    let pset: BTreeSet<&String> = s.path_spec.iter().map(|(n, _)| n).collect();
    if pset != set {
        reasons.push("path-params-differ");
    }
    // kinds
    for (n, k) in &s.path_spec {
        let is_wild = e.var_names().iter().any(|(m, w)| m == n && *w);
        let is_var = e.var_names().iter().any(|(m, w)| m == n && !*w);
        if is_var && !k.is_scalar() {
            reasons.push("non-scalar-path-param");
        }
        if is_wild && !is_var && matches!(k, PKind::Object | PKind::ObjArray) {
            reasons.push("non-scalar-path-param");
        }
    }
    if let Some(q) = &s.query_spec {
        for (n, k) in q {
            if set.contains(n) {
                reasons.push("path-query-name-clash");
            }
            if !k.is_scalar() {
                reasons.push("non-scalar-query-param");
            }
        }
    }
    // tags
    let violates = match h.policy % 3 {
        1 => s.tags.is_empty(),
        2 => s.tags.len() != 1,
        _ => false,
    } || (!h.allow_other_tags && s.tags.iter().any(|t| t == "other"));
    if violates {
        if e.visible {
            reasons.push("tag-policy");
        } else {
            // the statement does not say whether the policy applies to
            // unpublished endpoints; the outcome is not judged
            unspecified = true;
        }
    }
    reasons.dedup();
    (reasons, unspecified)
}

fn seg_kind(s: &Seg) -> u8 {
    match s {
        Seg::Lit(_) => 0,
        Seg::Var(_) => 1,
        Seg::Wild(_) => 2,
    }
}

/// conflict of a well-formed endpoint `n` with an accepted endpoint `a`
fn pair_conflict(a: &MEndpoint, n: &MEndpoint) -> Option<&'static str> {
    let mut i = 0;
    loop {
        match (a.segs.get(i), n.segs.get(i)) {
            (Some(x), Some(y)) => {
                if x == y {
                    i += 1;
                    continue;
                }
                if seg_kind(x) != seg_kind(y) {
                    return Some("segment-kind-clash");
                }
                if seg_kind(x) == 0 {
                    return None; // different literals: the paths diverge
                }
                return Some("variable-name-clash");
            }
            (None, None) => {
                if a.method == n.method && a.range.overlaps(&n.range) {
                    return Some("same-route-version-overlap");
                }
                return None;
            }
            (Some(x), None) | (None, Some(x)) => {
                // one template is a proper prefix of the other; a wildcard as
                // the very next (and last) segment also matches the prefix
                let longer = if a.segs.len() > n.segs.len() { a } else { n };
                if matches!(x, Seg::Wild(_)) && longer.segs.len() == i + 1 && a.method == n.method && a.range.overlaps(&n.range) {
                    return Some("wildcard-empty-vs-exact");
                }
                return None;
            }
        }
    }
}

fn rebuild(h: &History, accepted: &[Step]) -> Result<ApiDescription<DynCtx>, Failure> {
    let mut api = ApiDescription::new().tag_config(tag_config(h));
    for s in accepted {
        let o = try_register(&mut api, &s.e, &s.path_spec, s.query_spec.as_ref(), &s.tags);
        ensure!(
            o.accepted(),
            "re-register-refused",
            "endpoint {} {} accepted before is refused when registering the accepted list afresh: {:?}",
            s.e.method,
            s.e.template(),
            o
        );
    }
    Ok(api)
}

fn enumerate_all(h: &History, accepted: &[Step], st: &mut Stats, ctx_desc: &dyn Fn() -> String) -> Result<(), Failure> {
    let api = rebuild(h, accepted)?;
    let lookup = into_lookup(api);
    let table: Vec<MEndpoint> = accepted.iter().map(|s| s.e.clone()).collect();
    let alphabet = ["a", "b", "c", "zz"];
    let probes = pool_probes();
    // all concrete paths up to depth 4
    let mut paths: Vec<Vec<String>> = vec![vec![]];
    let mut frontier: Vec<Vec<String>> = vec![vec![]];
    for _ in 0..4 {
        let mut next = vec![];
        for p in &frontier {
            for a in alphabet {
                let mut q = p.clone();
                q.push(a.to_string());
                next.push(q);
            }
        }
        paths.extend(next.iter().cloned());
        frontier = next;
    }
    let mut reached: BTreeSet<String> = BTreeSet::new();
    for p in &paths {
        let raw = format!("/{}", p.join("/"));
        // cheap pre-filter: skip paths no template matches at all
        if !table.iter().any(|e| path_matches(&e.segs, p).is_some()) {
            continue;
        }
        for m in C02_METHODS {
            for v in &probes {
                let d = dispatch(&table, m, p, Some(v));
                st.eval();
                ensure!(
                    d.len() <= 1,
                    "accepted-table-ambiguous",
                    "{}: request {} {} @{} matches {} accepted endpoints: {:?}",
                    ctx_desc(),
                    m,
                    raw,
                    v.text(),
                    d.len(),
                    d.iter().map(|(e, _)| format!("{} {} [{}]", e.method, e.template(), e.range.text())).collect::<Vec<_>>()
                );
                let out = lookup(m, &raw, Some(v));
                match (d.first(), &out) {
                    (Some((e, _)), LookupOut::Found { op, .. }) => {
                        ensure!(op == &e.op, "accepted-table-misroutes", "{}: {} {} @{} should reach {}, reached {}", ctx_desc(), m, raw, v.text(), e.op, op);
                        reached.insert(op.clone());
                    }
                    (None, LookupOut::Miss { .. }) => {}
                    (Some((e, _)), LookupOut::Miss { status, .. }) => fail!(
                        "accepted-endpoint-unreachable",
                        "{}: {} {} @{} should reach {} ({} [{}]) but got {}",
                        ctx_desc(),
                        m,
                        raw,
                        v.text(),
                        e.op,
                        e.template(),
                        e.range.text(),
                        status
                    ),
                    (None, LookupOut::Found { op, .. }) => {
                        fail!("accepted-table-misroutes", "{}: {} {} @{} matches nothing but reached {}", ctx_desc(), m, raw, v.text(), op)
                    }
                }
            }
        }
    }
    // reachability: every accepted endpoint has a witness among the probes
    for e in &table {
        if e.segs.len() > 4 {
            continue;
        }
        let witness_exists = probes.iter().any(|v| e.range.contains(v));
        ensure!(witness_exists, "selftest-witness", "no probe version in {}", e.range.text());
        ensure!(
            reached.contains(&e.op),
            "accepted-endpoint-unreachable",
            "{}: accepted endpoint {} {} [{}] is reached by no request",
            ctx_desc(),
            e.method,
            e.template(),
            e.range.text()
        );
    }
    Ok(())
}

fn check_history(h: &History, st: &mut Stats) -> Result<(), Failure> {
    let mut api: ApiDescription<DynCtx> = ApiDescription::new().tag_config(tag_config(h));
    let mut accepted: Vec<Step> = vec![];
    let mut n_rejected = 0;
    let mut classes: BTreeSet<&'static str> = BTreeSet::new();
    let mid = pick_idx(h.mid, h.steps.len());
    st.count("histories");
    for (i, r) in h.steps.iter().enumerate() {
        let s = interpret(r, i);
        let (mut reasons, unspecified) = static_reasons(h, &s);
        let well_formed_path = !reasons.contains(&"repeated-variable") && !reasons.contains(&"segment-after-wildcard");
        if well_formed_path {
            for a in &accepted {
                if let Some(c) = pair_conflict(&a.e, &s.e) {
                    if !reasons.contains(&c) {
                        reasons.push(c);
                    }
                }
            }
        } else {
            // an ill-formed template is refused whatever else is true
        }
        let outcome = try_register(&mut api, &s.e, &s.path_spec, s.query_spec.as_ref(), &s.tags);
        st.eval();
        st.count("steps");
        let desc = || {
            format!(
                "step {} registers {} {} [{}] visible={} path-params={:?} query={:?} tags={:?} (policy {} allow_other={}) after accepted [{}]",
                i,
                s.e.method,
                s.e.template(),
                s.e.range.text(),
                s.e.visible,
                s.path_spec,
                s.query_spec,
                s.tags,
                h.policy % 3,
                h.allow_other_tags,
                accepted.iter().map(|a| format!("{} {} [{}]", a.e.method, a.e.template(), a.e.range.text())).collect::<Vec<_>>().join("; ")
            )
        };
        for c in &reasons {
            classes.insert(c);
            st.count(&format!("reason:{}", c));
        }
        if unspecified && reasons.is_empty() {
            st.count("unspecified_tag_on_unpublished");
            // follow the implementation
            match outcome {
                RegOutcome::Accepted => accepted.push(s),
                RegOutcome::RejectedErr(_) => {}
                RegOutcome::RejectedPanic(_) => api = rebuild(h, &accepted)?,
            }
            continue;
        }
        if reasons.is_empty() {
            st.count("expect_accept");
            match &outcome {
                RegOutcome::Accepted => accepted.push(s),
                o => fail!("clean-endpoint-refused", "{}: no conflict by the statement's rules, but registration said {:?}", desc(), o),
            }
        } else {
            st.count("expect_reject");
            n_rejected += 1;
            match &outcome {
                RegOutcome::Accepted => {
                    let mut rs = reasons.clone();
                    rs.sort();
                    fail!(format!("conflict-accepted:{}", rs.join("+")), "{}: must be refused because of {:?}, but was accepted", desc(), reasons)
                }
                RegOutcome::RejectedErr(_) => {}
                RegOutcome::RejectedPanic(_) => {
                    // a panicking registration may leave half-built trie nodes
                    api = rebuild(h, &accepted)?;
                }
            }
        }
        if i == mid && !accepted.is_empty() {
            enumerate_all(h, &accepted, st, &|| format!("after step {} of history", i))?;
        }
    }
    if !accepted.is_empty() {
        enumerate_all(h, &accepted, st, &|| "at the end of the history".to_string())?;
    }
    if accepted.len() >= 2 && n_rejected >= 1 {
        st.count("histories_accept_and_reject");
        if classes.len() >= 2 {
            st.nontrivial(hash_of(&format!("{:?}", h)));
        }
    }
    st.sample(|| {
        json!({
            "policy": h.policy % 3, "allow_other_tags": h.allow_other_tags,
            "steps": h.steps.iter().enumerate().map(|(i, r)| { let s = interpret(r, i); format!("{} {} [{}] params={:?} query={:?} tags={:?} visible={}", s.e.method, s.e.template(), s.e.range.text(), s.path_spec, s.query_spec, s.tags, s.e.visible) }).collect::<Vec<_>>(),
            "accepted": accepted.iter().map(|a| a.e.op.clone()).collect::<Vec<_>>(),
            "rejection_classes": classes,
        })
    });
    Ok(())
}

pub fn run(ctx: &mut Ctx) {
    run_inner(ctx);
    // exact route + wildcard route below it: every sequence of three registrations over all ranges of a
    // 4-version sub-pool (shared with C05)
    ctx.enumerate("route_shape_triples", crate::c05::shape_triple_cases(), true, crate::c05::check_shape_triple);
}

fn run_inner(ctx: &mut Ctx) {
    ctx.rule = "registration histories of 1-12 endpoints over a tiny alphabet (3 literals, 2 variable names, 1 wildcard, 3 methods, 16 version ranges over 3 pool versions, parameter specs that agree or disagree with the template, tag lists against a generated tag policy); oracle = reference conflict rules from the statement for each step, plus, for the accepted set, exhaustive enumeration of all concrete paths of depth <=4 over 4 segment values x 3 methods x 9 versions with the flat-list matcher (at most one match, router agrees, every accepted endpoint reached). non-trivial = history with >=2 accepted and >=1 rejected steps whose decisions involved >=2 different rule classes; distinct by history".into();
    ctx.assume("whether the tag policy applies to unpublished endpoints is not stated; those outcomes are followed, not judged");
    ctx.assume("a scalar type for a wildcard variable and an int-array for a wildcard are not generated (the statement is silent)");
    ctx.assume("after a panicking registration the description is rebuilt from the accepted list (a panic is fatal by contract and may leave half-built trie nodes)");
    let n = ctx.tier.pick(3000, 60000);
    ctx.phase("histories", n, history_strategy(12), check_history);
    ctx.require_frac("histories", "histories_accept_and_reject", "histories", 0.05);
    ctx.require_frac("histories", "expect_reject", "steps", 0.2);
    ctx.require_frac("histories", "expect_accept", "steps", 0.2);
    for c in [
        "repeated-variable",
        "segment-after-wildcard",
        "path-params-differ",
        "non-scalar-path-param",
        "path-query-name-clash",
        "non-scalar-query-param",
        "tag-policy",
        "segment-kind-clash",
        "variable-name-clash",
        "same-route-version-overlap",
        "wildcard-empty-vs-exact",
    ] {
        ctx.require_frac("histories", &format!("reason:{}", c), "steps", 0.002);
    }
}
