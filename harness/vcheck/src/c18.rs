//! C18 — hostile or broken traffic cannot take the server down.

use crate::core::*;
use crate::dynapi::start_server;
use crate::http1;
use crate::lifeapi::*;
use crate::{ensure, fail};
use proptest::prelude::*;
use serde::{Deserialize, Serialize};
use serde_json::json;
use std::time::Duration;

#[derive(Clone, Debug, Serialize, Deserialize)]
pub enum End {
    Fin,
    Rst,
    /// keep the connection open silently for this many ms, then close
    Silence(u8),
}

#[derive(Clone, Debug, Serialize, Deserialize)]
pub enum Script {
    RandomBytes(Vec<u8>, End),
    /// a valid request (index) cut at an offset (per mille of its length, or absolute in exhaustive mode)
    Truncated { which: u8, cut: u32, absolute: bool, end: End },
    /// syntactically invalid request by construction
    Malformed(u8, End),
    /// large but well-formed
    Oversized(u8),
    /// HTTP/2 preface followed by garbage
    H2Garbage(Vec<u8>),
    /// TLS ClientHello on the clear-text port
    TlsHello,
    /// a request to a panicking handler
    Panic,
    /// invalid websocket upgrade attempt on a non-channel endpoint
    BadUpgrade(u8),
    /// valid request (control)
    Valid(u8),
    /// a burst of connections that are reset (SO_LINGER 0) the moment they are established, so that
    /// some of them are already dead when the server gets round to accepting them
    ResetStorm(u8),
    /// a request head announcing an enormous body (2^31 .. 2^63 bytes) to a buffering endpoint, a few
    /// body bytes, then the end of the connection
    HugeAnnounced(u8, End),
}

fn end() -> impl Strategy<Value = End> {
    prop_oneof![Just(End::Fin), Just(End::Rst), (0u8..30).prop_map(End::Silence)]
}

fn script() -> impl Strategy<Value = Script> {
    prop_oneof![
        3 => (prop_oneof![
                proptest::collection::vec(any::<u8>(), 0..300),
                "[ -~\\r\\n]{0,200}".prop_map(|s| s.into_bytes()),
                Just(b"\r\n\r\n\r\n".to_vec()),
                Just(b"GET".to_vec()),
             ], end()).prop_map(|(b, e)| Script::RandomBytes(b, e)),
        4 => (0u8..4, 0u32..1000, end()).prop_map(|(which, cut, end)| Script::Truncated { which, cut, absolute: false, end }),
        5 => (0u8..24, end()).prop_map(|(k, e)| Script::Malformed(k, e)),
        1 => (0u8..4).prop_map(Script::Oversized),
        1 => proptest::collection::vec(any::<u8>(), 0..100).prop_map(Script::H2Garbage),
        1 => Just(Script::TlsHello),
        1 => Just(Script::Panic),
        1 => (0u8..4).prop_map(Script::BadUpgrade),
        2 => (0u8..4).prop_map(Script::Valid),
        1 => (0u8..40).prop_map(Script::ResetStorm),
        1 => (0u8..6, end()).prop_map(|(k, e)| Script::HugeAnnounced(k, e)),
    ]
}

pub fn valid_request(which: u8, id: u64) -> Vec<u8> {
    match which % 4 {
        0 => http1::build_request("GET", "/health", &[], None),
        1 => http1::build_request("POST", &format!("/upload?id={}&max_ms=0", id), &[("content-type".into(), "application/octet-stream".into())], Some(&vec![b'x'; 300])),
        2 => http1::build_request("GET", &format!("/hold?id={}&max_ms=1", id), &[("accept".into(), "*/*".into()), ("x-long".into(), "v".repeat(200))], None),
        _ => {
            let mut r = format!("POST /upload?id={}&max_ms=0 HTTP/1.1\r\nhost: verif\r\ntransfer-encoding: chunked\r\n\r\n", id).into_bytes();
            r.extend_from_slice(&http1::chunked_body(&vec![b'y'; 200], &[64], false, false));
            r
        }
    }
}

const N_MALFORMED: u8 = 24;

pub fn malformed_request(k: u8) -> (Vec<u8>, &'static str) {
    let h = "host: verif\r\n";
    let (s, what): (Vec<u8>, &'static str) = match k % N_MALFORMED {
        0 => (format!("GE T /health HTTP/1.1\r\n{}\r\n", h).into_bytes(), "space inside the method"),
        1 => (format!("G\u{0}T /health HTTP/1.1\r\n{}\r\n", h).into_bytes(), "NUL inside the method"),
        2 => (format!("GET /hea lth HTTP/1.1\r\n{}\r\n", h).into_bytes(), "space inside the target"),
        3 => (format!("GET /health HTTP/9.9\r\n{}\r\n", h).into_bytes(), "unknown HTTP version"),
        4 => (format!("GET /health HTTP/1.1x\r\n{}\r\n", h).into_bytes(), "junk after the version"),
        5 => (format!("GET /health\r\n{}\r\n", h).into_bytes(), "missing version"),
        6 => (format!("GET /health HTTP/1.1\r\n{}x-a: b\u{1}c\r\n\r\n", h).into_bytes(), "control byte in a header value"),
        7 => (format!("GET /health HTTP/1.1\r\n{}this line has no colon\r\n\r\n", h).into_bytes(), "header line without colon"),
        8 => (format!("GET /health HTTP/1.1\r\n{}bad name: v\r\n\r\n", h).into_bytes(), "space in a header name"),
        9 => (format!("POST /upload?id=1&max_ms=0 HTTP/1.1\r\n{}content-length: abc\r\n\r\nabc", h).into_bytes(), "non-numeric content-length"),
        10 => (format!("POST /upload?id=1&max_ms=0 HTTP/1.1\r\n{}content-length: 3\r\ncontent-length: 5\r\n\r\nabcde", h).into_bytes(), "conflicting content-lengths"),
        11 => (format!("POST /upload?id=1&max_ms=0 HTTP/1.1\r\n{}content-length: -3\r\n\r\nabc", h).into_bytes(), "negative content-length"),
        12 => (format!("POST /upload?id=1&max_ms=0 HTTP/1.1\r\n{}transfer-encoding: chunked\r\n\r\nzz\r\nabc\r\n0\r\n\r\n", h).into_bytes(), "bad chunk-size line"),
        13 => (format!("POST /upload?id=1&max_ms=0 HTTP/1.1\r\n{}transfer-encoding: chunked\r\n\r\n3\r\nabcdef\r\n0\r\n\r\n", h).into_bytes(), "chunk data longer than its size"),
        14 => (format!("GET /health HTTP/1.1\r\n{}: empty-name\r\n\r\n", h).into_bytes(), "empty header name"),
        15 => (b"\x00\x01\x02 / HTTP/1.1\r\nhost: v\r\n\r\n".to_vec(), "binary method"),
        16 => (format!("GET /health HTTP/1.1\n\n{}", "").into_bytes(), "bare LF, no host (allowed by some); junk after"),
        17 => (format!("get /health http/1.1\r\n{}\r\n", h).into_bytes(), "lower-case version token"),
        18 => (format!("GET  /health HTTP/1.1\r\n{}\r\n", h).into_bytes(), "two spaces in the request line"),
        19 => (format!("GET /health HTTP/1.1\r\n{}x-a: b\r\n c\u{0}\r\n\r\n", h).into_bytes(), "NUL in a folded header line"),
        20 => (format!("GET /%zz%\u{7f} HTTP/1.1\r\n{}\r\n", h).into_bytes(), "DEL in the target"),
        21 => (format!("POST /upload?id=1&max_ms=0 HTTP/1.1\r\n{}content-length: 18446744073709551616\r\n\r\nabc", h).into_bytes(), "content-length overflow"),
        22 => {
            let mut r = format!("PUT /typed HTTP/1.1\r\n{}content-length: 7\r\ncontent-type: application/json", h).into_bytes();
            r.extend_from_slice(&[0xff, 0xfe]);
            r.extend_from_slice(b"\r\n\r\n{\"a\":1}");
            (r, "Content-Type value with bytes that are not text, on a typed-body endpoint")
        }
        _ => {
            let mut r = format!("PUT /typed HTTP/1.1\r\n{}content-length: 7\r\ncontent-type: ", h).into_bytes();
            r.extend_from_slice(&[0x80, 0xc3, 0x28]);
            r.extend_from_slice(b"\r\n\r\n{\"a\":1}");
            (r, "Content-Type value that is only non-text bytes, on a typed-body endpoint")
        }
    };
    (s, what)
}

/// kinds whose rejection is certain by the HTTP/1.1 grammar (the others in
/// the table are tolerated by lenient parsers and only checked for validity
/// of whatever comes back)
fn malformed_is_strict(k: u8) -> bool {
    !matches!(k % N_MALFORMED, 16 | 17 | 18)
}

struct Live {
    addr: std::net::SocketAddr,
    server: Option<dropshot::HttpServer<LifeCtx>>,
    tls: bool,
}

async fn finish(conn: http1::Conn, end: &End) {
    match end {
        End::Fin => drop(conn),
        End::Rst => conn.abort(),
        End::Silence(ms) => {
            tokio::time::sleep(Duration::from_millis(*ms as u64)).await;
            drop(conn);
        }
    }
}

/// read everything the server says until it closes or goes quiet; parse
/// it as a sequence of responses
async fn read_all_responses(conn: &mut http1::Conn, quiet: Duration, max: usize) -> Result<Vec<http1::RawResp>, (String, Vec<u8>)> {
    let mut out = vec![];
    loop {
        match conn.read_response(false, quiet).await {
            http1::ReadOutcome::Resp(r) => {
                let close = r.header("connection").map(|c| c.eq_ignore_ascii_case("close")).unwrap_or(false);
                out.push(r);
                if close || out.len() >= max {
                    return Ok(out);
                }
            }
            http1::ReadOutcome::Closed(_) | http1::ReadOutcome::Timeout(_) if conn.buf.is_empty() => return Ok(out),
            http1::ReadOutcome::Timeout(b) => return Err(("bytes that are not a complete HTTP response, then silence".into(), b)),
            http1::ReadOutcome::Closed(b) => return Err(("stray bytes then close".into(), b)),
            http1::ReadOutcome::Malformed(m, b) => return Err((m, b)),
        }
    }
}

async fn run_script(addr: std::net::SocketAddr, tls_server: bool, s: Script, id: u64) -> Result<(String, Vec<u16>), Failure> {
    // against an HTTPS server half of the scripts run inside an established TLS session,
    // the other half are thrown at the TLS layer itself
    if let Script::ResetStorm(n) = &s {
        let mut tasks = vec![];
        for _ in 0..4 {
            let n = *n as usize + 8;
            tasks.push(tokio::spawn(async move {
                for _ in 0..n {
                    if let Ok(t) = tokio::net::TcpStream::connect(addr).await {
                        let _ = t.set_linger(Some(Duration::from_secs(0)));
                        drop(t);
                    }
                }
            }));
        }
        for t in tasks {
            let _ = t.await;
        }
        return Ok(("reset-storm".into(), vec![]));
    }
    let inside_tls = tls_server && (id % 2 == 0 || matches!(s, Script::Valid(_) | Script::Panic | Script::Malformed(..)));
    let mut conn = http1::Conn::connect_with(addr, inside_tls).await.map_err(|e| Failure::new("connect", format!("server does not accept connections: {}", e)))?;
    let quiet = Duration::from_millis(match &s {
        Script::Malformed(..) | Script::BadUpgrade(_) => 60,
        Script::Oversized(_) => 400,
        Script::Valid(_) | Script::Panic => 3000,
        _ => 20,
    });
    let max_responses = if matches!(s, Script::Valid(_) | Script::BadUpgrade(_)) { 1 } else { 8 };
    let (bytes, end, class, must_be_error, skip_grammar): (Vec<u8>, End, String, bool, bool) = match &s {
        Script::RandomBytes(b, e) => (b.clone(), e.clone(), "random".into(), false, b.starts_with(b"PRI * HTTP/2")),
        Script::Truncated { which, cut, absolute, end } => {
            let r = valid_request(*which, id);
            let k = if *absolute { (*cut as usize).min(r.len() - 1) } else { (*cut as usize) * (r.len() - 1) / 1000 };
            (r[..k].to_vec(), end.clone(), "truncated".into(), false, false)
        }
        Script::Malformed(k, e) => {
            let (b, _) = malformed_request(*k);
            (b, e.clone(), format!("malformed:{}", k % N_MALFORMED), malformed_is_strict(*k), false)
        }
        Script::Oversized(k) => {
            let b = match k % 4 {
                0 => format!("GET /health HTTP/1.1\r\nhost: v\r\nx-big: {}\r\n\r\n", "a".repeat(200 * 1024)).into_bytes(),
                1 => {
                    let mut s = "GET /health HTTP/1.1\r\nhost: v\r\n".to_string();
                    for i in 0..2000 {
                        s.push_str(&format!("x-h{}: v\r\n", i));
                    }
                    s.push_str("\r\n");
                    s.into_bytes()
                }
                2 => format!("GET /{} HTTP/1.1\r\nhost: v\r\n\r\n", "p".repeat(100 * 1024)).into_bytes(),
                _ => {
                    let body = vec![b'z'; 3 << 20];
                    let mut r = format!("POST /upload?id={}&max_ms=0 HTTP/1.1\r\nhost: v\r\ncontent-length: {}\r\n\r\n", id, body.len()).into_bytes();
                    r.extend_from_slice(&body);
                    r
                }
            };
            (b, End::Fin, "oversized".into(), false, false)
        }
        Script::H2Garbage(g) => {
            let mut b = b"PRI * HTTP/2.0\r\n\r\nSM\r\n\r\n".to_vec();
            b.extend_from_slice(g);
            (b, End::Fin, "h2-garbage".into(), false, true)
        }
        Script::TlsHello => {
            let mut b = vec![0x16, 0x03, 0x01, 0x00, 0xa5, 0x01, 0x00, 0x00, 0xa1, 0x03, 0x03];
            b.extend((0..160).map(|i| (i * 7) as u8));
            (b, End::Silence(10), "tls-hello".into(), false, false)
        }
        Script::Panic => (http1::build_request("GET", &format!("/panic?id={}&max_ms=1", id), &[], None), End::Silence(20), "panic".into(), false, false),
        Script::BadUpgrade(k) => {
            let hs = match k % 4 {
                0 => vec![("connection", "upgrade"), ("upgrade", "websocket")],
                1 => vec![("connection", "upgrade"), ("upgrade", "h2c"), ("http2-settings", "AAMAAABkAAQAAP__")],
                2 => vec![("connection", "upgrade, keep-alive"), ("upgrade", "websocket"), ("sec-websocket-version", "13"), ("sec-websocket-key", "dGhlIHNhbXBsZSBub25jZQ==")],
                _ => vec![("upgrade", "websocket"), ("sec-websocket-version", "13")],
            };
            let headers: Vec<(String, String)> = hs.into_iter().map(|(a, b)| (a.to_string(), b.to_string())).collect();
            (http1::build_request("GET", "/health", &headers, None), End::Fin, "bad-upgrade".into(), false, false)
        }
        Script::Valid(w) => (valid_request(*w, id), End::Fin, "valid".into(), false, false),
        Script::ResetStorm(_) => unreachable!("handled above"),
        Script::HugeAnnounced(k, e) => {
            let n: u64 = [1u64 << 31, 1 << 40, 1 << 50, 1 << 62, (1 << 63) - 1, u64::MAX][*k as usize % 6];
            let mut r = format!("POST /upload?id={}&max_ms=0 HTTP/1.1\r\nhost: v\r\ncontent-length: {}\r\n\r\n", id, n).into_bytes();
            r.extend_from_slice(b"only a few bytes follow");
            (r, e.clone(), "huge-announced-length".into(), false, false)
        }
    };
    // the server may answer and close while we are still writing
    let _ = conn.send_split(&bytes, &[bytes.len() / 2], 0).await;
    let mut statuses = vec![];
    if skip_grammar || (tls_server && !inside_tls) {
        // whatever comes back is TLS, not HTTP
        let _ = conn.read_to_end(quiet).await;
    } else {
        match read_all_responses(&mut conn, quiet, max_responses).await {
            Ok(rs) => {
                for r in &rs {
                    statuses.push(r.status);
                }
                if must_be_error {
                    for r in &rs {
                        ensure!(
                            r.status >= 400,
                            format!("malformed-request-answered-{}:{}", r.status, class),
                            "request {:?} is malformed but was answered {}",
                            truncate(&String::from_utf8_lossy(&bytes), 200),
                            r.status
                        );
                    }
                }
                if matches!(s, Script::Valid(_)) {
                    ensure!(rs.len() == 1 && rs[0].status == 200, "valid-request-refused", "valid request got {:?}", statuses);
                }
            }
            Err((m, b)) => fail!(
                format!("invalid-http-response:{}", class.split(':').next().unwrap()),
                "after sending {:?} ({}) the server sent bytes that are not a valid HTTP/1.1 response: {} :: {:?}",
                truncate(&String::from_utf8_lossy(&bytes), 200),
                class,
                m,
                truncate(&String::from_utf8_lossy(&b), 300)
            ),
        }
    }
    finish(conn, &end).await;
    Ok((if tls_server && !inside_tls { format!("raw-to-tls:{}", class) } else { class }, statuses))
}

async fn health(addr: std::net::SocketAddr, tls: bool, context: &str) -> Result<(), Failure> {
    let h = http1::oneshot_with(addr, tls, &http1::build_request("GET", "/health", &[], None), false, Duration::from_secs(10))
        .await
        .map_err(|e| Failure::new("server-unhealthy", format!("health probe on a fresh connection after {}: {}", context, e)))?;
    ensure!(h.status == 200 && h.body == b"\"ok\"", "server-unhealthy", "health probe after {}: {} {:?}", context, h.status, h.body_text());
    Ok(())
}

fn check_batch(live: &Live, rt: &tokio::runtime::Runtime, batch: &Vec<Script>, st: &mut Stats) -> Result<(), Failure> {
    let addr = live.addr;
    let tls = live.tls;
    rt.block_on(async {
        let mut handles = vec![];
        for (i, s) in batch.iter().cloned().enumerate() {
            handles.push(tokio::spawn(async move { run_script(addr, tls, s, 1000 + i as u64).await }));
        }
        // valid traffic interleaved with the faulty connections
        let probe = tokio::spawn(async move { health(addr, tls, "concurrent faulty connections").await });
        let mut classes = vec![];
        for h in handles {
            let (class, statuses) = h.await.map_err(|e| Failure::new("client-task", e.to_string()))??;
            classes.push((class, statuses));
        }
        probe.await.map_err(|e| Failure::new("client-task", e.to_string()))??;
        health(addr, tls, &format!("{:?}", classes)).await?;
        for (i, (class, statuses)) in classes.iter().enumerate() {
            st.eval();
            st.count(&format!("class:{}", class.split(':').next().unwrap()));
            let answered = !statuses.is_empty();
            if answered {
                st.count("answered");
            }
            let cut_inside = matches!(&batch[i], Script::Truncated { cut, .. } if *cut > 20);
            if answered || cut_inside {
                st.nontrivial(hash_of(&format!("{:?}", batch[i])));
            }
        }
        st.sample(|| json!({"scripts": batch.iter().map(|s| truncate(&format!("{:?}", s), 120)).collect::<Vec<_>>(), "outcomes": format!("{:?}", classes)}));
        Ok(())
    })
}

pub fn run(ctx: &mut Ctx) {
    ctx.rule = "batches of 1-8 concurrent connection scripts over raw TCP: random bytes; valid requests (4 shapes) cut at a generated offset (thorough: every offset) then FIN/RST/silence; 24 constructed-malformed requests (illegal method/target/version tokens, control bytes and missing colon in headers, non-numeric/conflicting/negative/overflowing content-length, bad chunk lines); oversized but well-formed requests (200 KiB header, 2000 headers, 100 KiB target, 3 MiB body); HTTP/2 preface + garbage; TLS ClientHello; request to a panicking handler; bogus upgrade attempts; valid controls - with a concurrent health probe. Oracle: whatever comes back parses under the harness' strict HTTP/1.1 response grammar; malformed-by-grammar requests get >= 400; after the batch a health request on a fresh connection returns 200 'ok'; the server closes cleanly at the end. non-trivial = script that was answered, or cut inside the request; distinct by script".into();
    ctx.assume("request-line spellings that lenient HTTP/1.1 parsers accept (bare LF, lower-case version, double space) are not required to be refused");
    ctx.max_shrink_iters = 200;
    let srt = tokio::runtime::Builder::new_multi_thread().worker_threads(3).enable_all().build().unwrap();
    let rt = tokio::runtime::Builder::new_multi_thread().worker_threads(3).enable_all().build().unwrap();
    let mut live = {
        let _g = srt.enter();
        let cfg = dropshot::ConfigDropshot { default_request_body_max_bytes: 1 << 20, ..Default::default() };
        let server = start_server(life_api(), LifeCtx::default(), cfg, None).expect("server");
        Live { addr: server.local_addr(), server: Some(server), tls: false }
    };
    let mut live_tls = {
        let _g = srt.enter();
        let cfg = dropshot::ConfigDropshot { default_request_body_max_bytes: 1 << 20, ..Default::default() };
        let server = crate::dynapi::start_server_tls(life_api(), LifeCtx::default(), cfg).expect("https server");
        Live { addr: server.local_addr(), server: Some(server), tls: true }
    };
    // connections that stall for the whole run: they connect and then say nothing (on the HTTPS
    // server one of them stops in the middle of the TLS handshake).  Every health probe of every
    // batch below has to get through while these are being held.
    let stalled: Vec<tokio::net::TcpStream> = rt.block_on(async {
        use tokio::io::AsyncWriteExt;
        let mut v = vec![];
        for (addr, hello) in [(live.addr, false), (live.addr, true), (live_tls.addr, false), (live_tls.addr, true)] {
            if let Ok(mut s) = tokio::net::TcpStream::connect(addr).await {
                if hello {
                    // the first bytes of a request line / of a TLS ClientHello, never completed
                    let _ = s.write_all(if addr == live.addr { b"GET /hea" } else { &[0x16, 0x03, 0x01, 0x02, 0x00, 0x01, 0x00] }).await;
                }
                v.push(s);
            }
        }
        v
    });
    ctx.assume("four connections that stall forever (two mid-request / mid-TLS-handshake) are held open during all phases");
    let n = ctx.tier.pick(700, 12000);
    ctx.phase("batches", n, proptest::collection::vec(script(), 1..8), |b, st| check_batch(&live, &rt, b, st));
    ctx.require_frac("batches", "answered", "class:malformed", 0.5);
    // the same scripts against an HTTPS server: half inside a TLS session, half thrown at the TLS layer
    let n = ctx.tier.pick(250, 4000);
    ctx.phase("batches_https", n, proptest::collection::vec(script(), 1..8), |b, st| check_batch(&live_tls, &rt, b, st));
    // every truncation offset of the fixed valid requests (thorough), every 7th in quick
    let step = ctx.tier.pick(7, 1);
    let mut cases: Vec<Vec<Script>> = vec![];
    for which in 0..4u8 {
        let len = valid_request(which, 1).len();
        let mut k = 0;
        while k < len {
            for end in [End::Fin, End::Rst] {
                cases.push(vec![Script::Truncated { which, cut: k as u32, absolute: true, end }]);
            }
            k += step;
        }
    }
    ctx.enumerate("every_truncation", cases, step == 1, |b, st| check_batch(&live, &rt, b, st));
    // all malformed kinds, one by one
    let cases: Vec<Vec<Script>> = (0..N_MALFORMED).map(|k| vec![Script::Malformed(k, End::Silence(5))]).collect();
    ctx.enumerate("every_malformed_kind", cases, true, |b, st| check_batch(&live, &rt, b, st));
    // (4) clean close
    drop(stalled);
    if let Some(server) = live_tls.server.take() {
        if srt.block_on(async { tokio::time::timeout(Duration::from_secs(30), server.close()).await }).is_err() {
            ctx.harness_error("the HTTPS server did not shut down within 30 s after the hostile traffic (liveness: reported as inconclusive)".into());
        }
    }
    let server = live.server.take().unwrap();
    match srt.block_on(async { tokio::time::timeout(Duration::from_secs(30), server.close()).await }) {
        Ok(Ok(())) => {}
        Ok(Err(e)) => ctx.harness_error(format!("close after hostile traffic returned {}", e)),
        Err(_) => ctx.harness_error("the server did not shut down within 30 s after the hostile traffic (liveness: reported as inconclusive)".into()),
    }
}
