//! R9: independent client-side encoders (percent, query/form, JSON text,
//! multipart) with style choices derived from a per-request style seed.

use crate::core::splitmix64;
use serde_json::Value;

/// tiny deterministic chooser
#[derive(Clone)]
pub struct Style(pub u64);
impl Style {
    pub fn next(&mut self) -> u64 {
        self.0 = splitmix64(self.0);
        self.0
    }
    pub fn below(&mut self, n: u64) -> u64 {
        if n == 0 {
            0
        } else {
            self.next() % n
        }
    }
    pub fn coin(&mut self) -> bool {
        self.next() & 1 == 1
    }
    pub fn shuffle<T>(&mut self, v: &mut Vec<T>) {
        for i in (1..v.len()).rev() {
            let j = self.below(i as u64 + 1) as usize;
            v.swap(i, j);
        }
    }
}

fn unreserved(b: u8) -> bool {
    b.is_ascii_alphanumeric() || matches!(b, b'-' | b'.' | b'_' | b'~')
}

/// percent-encode for a query/form component.  `plus` renders space as '+'.
pub fn enc_component(s: &str, st: &mut Style, plus: bool) -> String {
    let eager = st.below(4) == 0; // encode even unreserved bytes sometimes
    let mut out = String::new();
    for &b in s.as_bytes() {
        if b == b' ' && plus {
            out.push('+');
        } else if unreserved(b) && !(eager && st.below(3) == 0) {
            out.push(b as char);
        } else if st.coin() {
            out.push_str(&format!("%{:02X}", b));
        } else {
            out.push_str(&format!("%{:02x}", b));
        }
    }
    out
}

/// percent-encode a path segment (never '+' for space)
pub fn enc_path_segment(s: &str, st: &mut Style) -> String {
    let mode = st.below(3);
    let mut out = String::new();
    for &b in s.as_bytes() {
        let sub = matches!(b, b'!' | b'$' | b'&' | b'\'' | b'(' | b')' | b'*' | b'+' | b',' | b';' | b'=' | b':' | b'@');
        let raw = match mode {
            0 => unreserved(b) || sub,
            1 => unreserved(b),
            _ => unreserved(b) && st.below(3) != 0,
        };
        if raw {
            out.push(b as char);
        } else if st.coin() {
            out.push_str(&format!("%{:02X}", b));
        } else {
            out.push_str(&format!("%{:02x}", b));
        }
    }
    out
}

/// key=value pairs joined with '&' in shuffled order
pub fn enc_pairs(pairs: &[(String, String)], st: &mut Style) -> String {
    let plus = st.coin();
    let mut v: Vec<(String, String)> = pairs.to_vec();
    st.shuffle(&mut v);
    v.iter()
        .map(|(k, val)| format!("{}={}", enc_component(k, st, plus), enc_component(val, st, plus)))
        .collect::<Vec<_>>()
        .join("&")
}

fn json_string(s: &str, st: &mut Style, out: &mut String) {
    let esc_non_ascii = st.below(3) == 0;
    let esc_slash = st.below(4) == 0;
    let esc_some_ascii = st.below(5) == 0;
    out.push('"');
    for c in s.chars() {
        match c {
            '"' => out.push_str("\\\""),
            '\\' => out.push_str("\\\\"),
            '\n' if st.coin() => out.push_str("\\n"),
            '\r' if st.coin() => out.push_str("\\r"),
            '\t' if st.coin() => out.push_str("\\t"),
            '\u{8}' if st.coin() => out.push_str("\\b"),
            '\u{c}' if st.coin() => out.push_str("\\f"),
            '/' if esc_slash => out.push_str("\\/"),
            c if (c as u32) < 0x20 => out.push_str(&format!("\\u{:04x}", c as u32)),
            c if (c as u32) == 0x7f => out.push(c),
            c if c.is_ascii() => {
                if esc_some_ascii && st.below(4) == 0 {
                    out.push_str(&format!("\\u{:04X}", c as u32));
                } else {
                    out.push(c)
                }
            }
            c => {
                if esc_non_ascii {
                    let mut buf = [0u16; 2];
                    for u in c.encode_utf16(&mut buf) {
                        out.push_str(&format!("\\u{:04x}", u));
                    }
                } else {
                    out.push(c)
                }
            }
        }
    }
    out.push('"');
}

fn ws(st: &mut Style, out: &mut String, on: bool) {
    if on {
        match st.below(5) {
            0 => out.push(' '),
            1 => out.push('\n'),
            2 => out.push_str("\r\n\t"),
            3 => out.push_str("  "),
            _ => {}
        }
    }
}

/// JSON text for a value.  Numbers must already be in the representation to
/// be sent: integers as Value::Number, floats given as `FloatText` strings
/// under the reserved key wrapper {"$float": "1.5e3"}.
pub fn json_text(v: &Value, st: &mut Style) -> String {
    let spaced = st.below(3) == 0;
    let mut out = String::new();
    ws(st, &mut out, spaced);
    json_value(v, st, &mut out, spaced);
    ws(st, &mut out, spaced);
    out
}

fn json_value(v: &Value, st: &mut Style, out: &mut String, spaced: bool) {
    match v {
        Value::Null => out.push_str("null"),
        Value::Bool(b) => out.push_str(if *b { "true" } else { "false" }),
        Value::Number(n) => out.push_str(&n.to_string()),
        Value::String(s) => json_string(s, st, out),
        Value::Array(a) => {
            out.push('[');
            for (i, x) in a.iter().enumerate() {
                if i > 0 {
                    out.push(',');
                }
                ws(st, out, spaced);
                json_value(x, st, out, spaced);
                ws(st, out, spaced);
            }
            if a.is_empty() {
                ws(st, out, spaced);
            }
            out.push(']');
        }
        Value::Object(m) => {
            if m.len() == 1 {
                if let Some(Value::String(t)) = m.get("$float") {
                    out.push_str(t);
                    return;
                }
            }
            let mut keys: Vec<&String> = m.keys().collect();
            st.shuffle(&mut keys);
            out.push('{');
            for (i, k) in keys.iter().enumerate() {
                if i > 0 {
                    out.push(',');
                }
                ws(st, out, spaced);
                json_string(k, st, out);
                ws(st, out, spaced);
                out.push(':');
                ws(st, out, spaced);
                json_value(&m[*k], st, out, spaced);
                ws(st, out, spaced);
            }
            if keys.is_empty() {
                ws(st, out, spaced);
            }
            out.push('}');
        }
    }
}

/// decimal text of a finite f64 that parses back exactly
pub fn float_text(f: f64, st: &mut Style) -> String {
    match st.below(4) {
        0 => format!("{:e}", f),
        1 => format!("{:E}", f),
        2 => {
            let s = format!("{}", f);
            if s.contains('.') || s.contains('e') || s.contains("inf") || s.contains("NaN") {
                s
            } else {
                format!("{}.0", s)
            }
        }
        _ => format!("{}", f),
    }
}

#[derive(Clone, Debug, serde::Serialize, serde::Deserialize)]
pub struct MPart {
    pub name: String,
    pub filename: Option<String>,
    pub content_type: Option<String>,
    pub data: Vec<u8>,
}

/// Returns (content-type header value, body)
pub fn multipart(parts: &[MPart], boundary_nonce: u64, st: &mut Style, boundary_style: u8) -> (String, Vec<u8>) {
    let mut boundary = format!("VerifBoundary{:016x}", boundary_nonce);
    // the delimiter must not occur in any part's data
    while parts.iter().any(|p| p.data.windows(boundary.len()).any(|w| w == boundary.as_bytes())) {
        boundary.push('x');
    }
    let ct = match boundary_style % 6 {
        0 => format!("multipart/form-data; boundary={}", boundary),
        1 => format!("multipart/form-data; boundary=\"{}\"", boundary),
        2 => format!("multipart/form-data; boundary={}; charset=utf-8", boundary),
        3 => format!("multipart/form-data; charset=utf-8; boundary={}", boundary),
        4 => format!("Multipart/Form-Data; Boundary={}", boundary),
        _ => format!("multipart/form-data;boundary={}", boundary),
    };
    let mut out = vec![];
    if st.below(4) == 0 {
        out.extend_from_slice(b"this is a preamble to be ignored\r\n");
    }
    for p in parts {
        out.extend_from_slice(format!("--{}\r\n", boundary).as_bytes());
        let cd = if st.coin() { "Content-Disposition" } else { "content-disposition" };
        let mut line = format!("{}: form-data; name=\"{}\"", cd, p.name);
        if let Some(f) = &p.filename {
            line.push_str(&format!("; filename=\"{}\"", f));
        }
        out.extend_from_slice(line.as_bytes());
        out.extend_from_slice(b"\r\n");
        if let Some(ct) = &p.content_type {
            let h = if st.coin() { "Content-Type" } else { "content-type" };
            out.extend_from_slice(format!("{}: {}\r\n", h, ct).as_bytes());
        }
        out.extend_from_slice(b"\r\n");
        out.extend_from_slice(&p.data);
        out.extend_from_slice(b"\r\n");
    }
    out.extend_from_slice(format!("--{}--\r\n", boundary).as_bytes());
    if st.below(4) == 0 {
        out.extend_from_slice(b"epilogue\r\n");
    }
    (ct, out)
}
