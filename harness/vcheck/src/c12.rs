//! C12 — typed responses are serialised faithfully with their declared status.

use crate::c09::any_string;
use crate::core::*;
use crate::dynapi::start_server;
use crate::http1;
use crate::{ensure, fail};
use dropshot::{
    endpoint, http_response_found, http_response_see_other, http_response_temporary_redirect, ApiDescription, HttpError,
    HttpResponse, HttpResponseAccepted, HttpResponseCreated, HttpResponseDeleted, HttpResponseFound, HttpResponseHeaders,
    HttpResponseOk, HttpResponseSeeOther, HttpResponseTemporaryRedirect, HttpResponseUpdatedNoContent, RequestContext,
    TypedBody,
};
use http_body_util::BodyExt;
use proptest::prelude::*;
use schemars::JsonSchema;
use serde::{Deserialize, Serialize};
use serde_json::{json, Value};
use std::collections::BTreeMap;
use std::time::Duration;

#[derive(Clone, Debug, PartialEq, Serialize, Deserialize, JsonSchema)]
pub struct RespBody {
    pub text: String,
    pub n: u64,
    pub i: i64,
    pub list: Vec<String>,
    pub map: BTreeMap<String, String>,
    pub opt: Option<String>,
    pub nested: Option<Box<RespBody>>,
    pub flag: bool,
    /// integers wider than 64 bits (serde_json writes them as plain JSON numbers)
    #[serde(default)]
    pub wide: u128,
    #[serde(default)]
    pub wide_neg: i128,
}

#[derive(Clone, Debug, Serialize, Deserialize, JsonSchema)]
pub struct DeclaredHeaders {
    #[serde(rename = "x-verif-a")]
    pub a: String,
    #[serde(rename = "x-verif-b")]
    pub b: String,
    /// header names are case-insensitive: a declared name may be written in any case
    #[serde(rename = "X-Verif-Mixed")]
    pub mixed: String,
}

#[derive(Clone, Debug, Serialize, Deserialize, JsonSchema)]
pub enum Kind {
    OkValue,
    OkTyped,
    Created,
    Accepted,
    Deleted,
    Updated,
    Found,
    SeeOther,
    TempRedirect,
    WithHeaders,
}

#[derive(Clone, Debug, Serialize, Deserialize, JsonSchema)]
pub struct ExplicitHeader {
    pub name: String,
    pub value: String,
}

#[derive(Clone, Debug, Serialize, Deserialize, JsonSchema)]
pub struct RespSpec {
    pub kind: Kind,
    pub value: Value,
    pub typed: RespBody,
    pub declared: DeclaredHeaders,
    /// explicit headers added with headers_mut(), in order
    pub explicit: Vec<ExplicitHeader>,
    pub location: String,
}

// ---- strategies -------------------------------------------------------------

fn json_value() -> impl Strategy<Value = Value> {
    let leaf = prop_oneof![
        Just(Value::Null),
        any::<bool>().prop_map(Value::Bool),
        any::<i64>().prop_map(|n| json!(n)),
        any::<u64>().prop_map(|n| json!(n)),
        prop::sample::select(vec![0i64, -1, i64::MIN, i64::MAX]).prop_map(|n| json!(n)),
        Just(json!(u64::MAX)),
        (-(1i64 << 30)..(1i64 << 30), 0u32..8).prop_map(|(m, k)| json!((m as f64) / ((1u64 << k) as f64))),
        any_string().prop_map(Value::String),
    ];
    leaf.prop_recursive(4, 24, 5, |inner| {
        prop_oneof![
            proptest::collection::vec(inner.clone(), 0..5).prop_map(Value::Array),
            proptest::collection::vec((any_string(), inner), 0..5).prop_map(|kv| Value::Object(kv.into_iter().collect())),
        ]
    })
}

fn resp_body() -> impl Strategy<Value = RespBody> {
    let leaf = (
        any_string(),
        prop_oneof![any::<u64>(), Just(u64::MAX), Just(0)],
        prop_oneof![any::<i64>(), Just(i64::MIN), Just(i64::MAX)],
        proptest::collection::vec(any_string(), 0..4),
        proptest::collection::vec((any_string(), any_string()), 0..4),
        proptest::option::of(any_string()),
        any::<bool>(),
        prop_oneof![3 => Just(0u128), 2 => any::<u64>().prop_map(|x| x as u128), 2 => any::<u128>(), 1 => Just(u64::MAX as u128 + 1), 1 => Just(u128::MAX)],
        prop_oneof![3 => Just(0i128), 2 => any::<i64>().prop_map(|x| x as i128), 2 => any::<i128>(), 1 => Just(i64::MIN as i128 - 1), 1 => Just(i128::MIN)],
    )
        .prop_map(|(text, n, i, list, map, opt, flag, wide, wide_neg)| RespBody { text, n, i, list, map: map.into_iter().collect(), opt, nested: None, flag, wide, wide_neg });
    leaf.prop_recursive(3, 4, 1, |inner| {
        (inner.clone(), proptest::option::of(inner)).prop_map(|(mut a, b)| {
            a.nested = b.map(Box::new);
            a
        })
    })
}

/// header value text: mostly legal; sometimes with control characters
fn header_text() -> impl Strategy<Value = String> {
    prop_oneof![
        5 => "[!-~]([ -~]{0,20}[!-~])?",
        2 => "[!-~]{1,8}",
        1 => Just(String::new()),
        1 => "[a-z]{0,3}[\\x00-\\x1f\\x7f][a-z]{0,3}",
        1 => "[a-zé日🦀]{1,6}",
        1 => "[a-z]{1,4}\t[a-z]{1,4}",
    ]
}

fn location_text() -> impl Strategy<Value = String> {
    prop_oneof![
        4 => "(https?://[a-z.]{1,12})?/[!-~]{0,30}",
        2 => any_string(),
        1 => "[ -~]{0,10}[\\x00-\\x1f\\x7f][ -~]{0,10}",
        1 => "/[a-zé日🦀 ]{1,10}",
        1 => Just("/ok\r\nset-cookie: injected=1".to_string()),
        1 => Just(String::new()),
    ]
}

const EXPLICIT_NAMES: [&str; 5] = ["x-verif-a", "x-verif-b", "x-verif-c", "cache-control", "X-Verif-A"];

pub fn resp_spec() -> impl Strategy<Value = RespSpec> {
    let kind = prop_oneof![
        2 => Just(Kind::OkValue),
        2 => Just(Kind::OkTyped),
        1 => Just(Kind::Created),
        1 => Just(Kind::Accepted),
        1 => Just(Kind::Deleted),
        1 => Just(Kind::Updated),
        1 => Just(Kind::Found),
        1 => Just(Kind::SeeOther),
        1 => Just(Kind::TempRedirect),
        3 => Just(Kind::WithHeaders),
    ];
    (
        kind,
        json_value(),
        resp_body(),
        (header_text(), header_text(), "[!-~]{1,12}").prop_map(|(a, b, mixed)| DeclaredHeaders { a, b, mixed }),
        proptest::collection::vec((prop::sample::select(EXPLICIT_NAMES.to_vec()), header_text()), 0..4),
        location_text(),
    )
        .prop_map(|(kind, value, typed, declared, explicit, location)| RespSpec {
            kind,
            value,
            typed,
            declared,
            explicit: explicit.into_iter().map(|(n, v)| ExplicitHeader { name: n.to_string(), value: v }).collect(),
            location,
        })
}

// ---- reference predicates -----------------------------------------------------

/// RFC 9110 field-content: no control bytes other than HTAB, no DEL
pub fn header_value_legal(s: &str) -> bool {
    s.bytes().all(|b| (b >= 0x20 && b != 0x7f) || b == b'\t')
}

fn trim_ows(s: &str) -> &str {
    s.trim_matches(|c| c == ' ' || c == '\t')
}

/// expected final header values for the declared-header names
fn expected_headers(s: &RespSpec) -> BTreeMap<String, Vec<String>> {
    let mut m: BTreeMap<String, Vec<String>> = BTreeMap::new();
    m.insert("x-verif-a".into(), vec![s.declared.a.clone()]);
    m.insert("x-verif-b".into(), vec![s.declared.b.clone()]);
    m.insert("x-verif-mixed".into(), vec![s.declared.mixed.clone()]);
    // explicit headers override declared ones of the same name; several
    // explicit values for one name are all sent
    let mut explicit: BTreeMap<String, Vec<String>> = BTreeMap::new();
    for h in &s.explicit {
        explicit.entry(h.name.to_ascii_lowercase()).or_default().push(h.value.clone());
    }
    for (n, vs) in explicit {
        m.insert(n, vs);
    }
    m
}

// ---- building the typed response ----------------------------------------------

enum Built {
    Resp(Result<hyper::Response<dropshot::Body>, HttpError>),
    /// constructor refused (redirects with illegal location)
    CtorErr(HttpError),
    /// an explicit header could not even be put into the HeaderMap (harness side)
    Skip,
}

fn with_headers(s: &RespSpec) -> Option<HttpResponseHeaders<HttpResponseOk<RespBody>, DeclaredHeaders>> {
    let mut r = HttpResponseHeaders::new(HttpResponseOk(s.typed.clone()), s.declared.clone());
    for h in &s.explicit {
        let name = http::HeaderName::from_bytes(h.name.as_bytes()).ok()?;
        let val = http::HeaderValue::from_str(&h.value).ok()?;
        r.headers_mut().append(name, val);
    }
    Some(r)
}

/// a value whose JSON serialisation fails after part of it has been written (map keys that are not strings)
#[derive(Serialize, schemars::JsonSchema)]
struct FailsHalfway {
    name: String,
    cells: std::collections::BTreeMap<(u32, u32), String>,
}

/// An unrelated response, built on this thread just before the one under test, that cannot be
/// serialised: it has to be refused (an error, never a success), and it must not leave anything
/// behind that shows up in the next response.
fn unserialisable_response_first(s: &RespSpec) -> Result<(), Failure> {
    let v = FailsHalfway { name: s.typed.text.clone(), cells: [((1, 2), "x".to_string())].into_iter().collect() };
    match catch_quiet(|| HttpResponseOk(v).to_result()) {
        Ok(Ok(resp)) => {
            ensure!(resp.status().as_u16() >= 500, "unserialisable-value-sent", "a value that cannot be serialised as JSON produced a {} response", resp.status());
            Ok(())
        }
        Ok(Err(e)) => {
            ensure!(e.status_code.as_u16() >= 500, "unserialisable-value-status", "a value that cannot be serialised produced error status {}", e.status_code.as_u16());
            Ok(())
        }
        Err(p) => fail!("panic:unserialisable", "serialising an unserialisable value panicked: {}", p),
    }
}

fn build(s: &RespSpec) -> Built {
    match s.kind {
        Kind::OkValue => Built::Resp(HttpResponseOk(s.value.clone()).to_result()),
        Kind::OkTyped => Built::Resp(HttpResponseOk(s.typed.clone()).to_result()),
        Kind::Created => Built::Resp(HttpResponseCreated(s.value.clone()).to_result()),
        Kind::Accepted => Built::Resp(HttpResponseAccepted(s.typed.clone()).to_result()),
        Kind::Deleted => Built::Resp(HttpResponseDeleted().to_result()),
        Kind::Updated => Built::Resp(HttpResponseUpdatedNoContent().to_result()),
        Kind::Found => match http_response_found(s.location.clone()) {
            Ok(r) => Built::Resp(r.to_result()),
            Err(e) => Built::CtorErr(e),
        },
        Kind::SeeOther => match http_response_see_other(s.location.clone()) {
            Ok(r) => Built::Resp(r.to_result()),
            Err(e) => Built::CtorErr(e),
        },
        Kind::TempRedirect => match http_response_temporary_redirect(s.location.clone()) {
            Ok(r) => Built::Resp(r.to_result()),
            Err(e) => Built::CtorErr(e),
        },
        Kind::WithHeaders => match with_headers(s) {
            Some(r) => Built::Resp(r.to_result()),
            None => Built::Skip,
        },
    }
}

fn expected_status(k: &Kind) -> u16 {
    match k {
        Kind::OkValue | Kind::OkTyped | Kind::WithHeaders => 200,
        Kind::Created => 201,
        Kind::Accepted => 202,
        Kind::Deleted | Kind::Updated => 204,
        Kind::Found => 302,
        Kind::SeeOther => 303,
        Kind::TempRedirect => 307,
    }
}

fn kind_name(k: &Kind) -> String {
    format!("{:?}", k)
}

/// common judgement of (status, headers, body) against the spec
fn judge(s: &RespSpec, status: u16, headers: &[(String, Vec<u8>)], body: &[u8], wire: bool) -> Result<(), Failure> {
    let kn = kind_name(&s.kind);
    ensure!(status == expected_status(&s.kind), format!("status:{}", kn), "{}: expected status {}, got {}", kn, expected_status(&s.kind), status);
    let get_all = |n: &str| -> Vec<Vec<u8>> { headers.iter().filter(|(k, _)| k == n).map(|(_, v)| v.clone()).collect() };
    match s.kind {
        Kind::OkValue | Kind::Created => {
            let ct = get_all("content-type");
            ensure!(ct.len() == 1 && ct[0] == b"application/json", format!("content-type:{}", kn), "{}: content-type {:?}", kn, ct);
            let got: Value = serde_json::from_slice(body).map_err(|e| Failure::new(format!("body-not-json:{}", kn), format!("{}: {}", e, truncate(&String::from_utf8_lossy(body), 300))))?;
            ensure!(got == s.value, format!("body-differs:{}", kn), "{}: body parses to {} but the handler returned {}", kn, truncate(&got.to_string(), 400), truncate(&s.value.to_string(), 400));
        }
        Kind::OkTyped | Kind::Accepted | Kind::WithHeaders => {
            let ct = get_all("content-type");
            ensure!(ct.len() == 1 && ct[0] == b"application/json", format!("content-type:{}", kn), "{}: content-type {:?}", kn, ct);
            let got: RespBody = serde_json::from_slice(body).map_err(|e| Failure::new(format!("body-not-json:{}", kn), format!("{}: {}", e, truncate(&String::from_utf8_lossy(body), 300))))?;
            ensure!(got == s.typed, format!("body-differs:{}", kn), "{}: body parses back to {:?} but the handler returned {:?}", kn, got, s.typed);
            // (a serde_json::Value cannot hold integers wider than 64 bits, so the untyped comparison is
            // made only when the value has none)
            if let Ok(want) = serde_json::to_value(&s.typed) {
                let gv: Value = serde_json::from_slice(body).unwrap();
                ensure!(gv == want, format!("body-differs:{}", kn), "{}: JSON value differs", kn);
            }
        }
        Kind::Deleted | Kind::Updated | Kind::Found | Kind::SeeOther | Kind::TempRedirect => {
            ensure!(body.is_empty(), format!("body-not-empty:{}", kn), "{}: body should be empty, got {} bytes", kn, body.len());
        }
    }
    if matches!(s.kind, Kind::Found | Kind::SeeOther | Kind::TempRedirect) {
        let loc = get_all("location");
        let want: Vec<u8> = if wire { trim_ows(&s.location).as_bytes().to_vec() } else { s.location.as_bytes().to_vec() };
        ensure!(loc.len() == 1 && loc[0] == want, format!("location:{}", kn), "{}: location header {:?}, expected {:?}", kn, loc.iter().map(|l| String::from_utf8_lossy(l).to_string()).collect::<Vec<_>>(), s.location);
    }
    if matches!(s.kind, Kind::WithHeaders) {
        for (name, vals) in expected_headers(s) {
            let mut got: Vec<Vec<u8>> = get_all(&name);
            let mut want: Vec<Vec<u8>> = vals.iter().map(|v| if wire { trim_ows(v).as_bytes().to_vec() } else { v.as_bytes().to_vec() }).collect();
            got.sort();
            want.sort();
            ensure!(
                got == want,
                if name.starts_with("x-verif-a") || name.starts_with("x-verif-b") || name.starts_with("x-verif-mixed") { "declared-or-overridden-header" } else { "explicit-header" },
                "header {}: expected values {:?}, response has {:?} (declared a={:?} b={:?}, explicit {:?})",
                name,
                vals,
                got.iter().map(|l| String::from_utf8_lossy(l).to_string()).collect::<Vec<_>>(),
                s.declared.a,
                s.declared.b,
                s.explicit
            );
        }
    }
    Ok(())
}

fn classify(s: &RespSpec, st: &mut Stats) -> bool {
    st.count(&format!("kind:{}", kind_name(&s.kind)));
    match s.kind {
        Kind::WithHeaders => {
            let collide = s.explicit.iter().any(|h| h.name.eq_ignore_ascii_case("x-verif-a") || h.name.eq_ignore_ascii_case("x-verif-b"));
            if collide {
                st.count("explicit_collides_with_declared");
            }
            collide || !s.explicit.is_empty()
        }
        Kind::Found | Kind::SeeOther | Kind::TempRedirect => {
            if !header_value_legal(&s.location) {
                st.count("illegal_location");
            }
            !s.location.is_ascii() || !header_value_legal(&s.location)
        }
        Kind::OkValue | Kind::Created => !s.value.to_string().is_ascii() || s.value.to_string().len() > 40,
        _ => !s.typed.text.is_ascii() || s.typed.nested.is_some(),
    }
}

fn check_inproc(s: &RespSpec, st: &mut Stats) -> Result<(), Failure> {
    st.eval();
    if classify(s, st) {
        st.nontrivial(hash_of(&format!("{:?}", s)));
    }
    let kn = kind_name(&s.kind);
    if hash_of(&format!("{:?}", s.declared)) % 4 == 0 {
        st.count("after_an_unserialisable_response");
        unserialisable_response_first(s)?;
    }
    let built = match catch_quiet(|| build(s)) {
        Ok(b) => b,
        Err(p) => fail!(format!("panic:{}", kn), "{}: building the response panicked: {}", kn, p),
    };
    let is_redirect = matches!(s.kind, Kind::Found | Kind::SeeOther | Kind::TempRedirect);
    match built {
        Built::Skip => {
            st.count("skipped_explicit_header_illegal");
            Ok(())
        }
        Built::CtorErr(e) => {
            ensure!(is_redirect && !header_value_legal(&s.location), format!("legal-location-refused:{}", kn), "{}: location {:?} is a legal header value but the constructor refused it: {}", kn, s.location, e);
            ensure!(e.status_code.as_u16() >= 500, "redirect-error-status", "refusal should be a server-side error, got {}", e.status_code);
            Ok(())
        }
        Built::Resp(Err(e)) => {
            // declared header values that are not legal header values cannot be sent
            let declared_illegal = matches!(s.kind, Kind::WithHeaders) && (!header_value_legal(&s.declared.a) || !header_value_legal(&s.declared.b));
            ensure!(declared_illegal, format!("to_result-error:{}", kn), "{}: to_result failed: {}", kn, e);
            st.count("declared_header_illegal_refused");
            Ok(())
        }
        Built::Resp(Ok(resp)) => {
            if is_redirect {
                ensure!(header_value_legal(&s.location), format!("illegal-location-sent:{}", kn), "{}: location {:?} is not a legal header value but a response was built", kn, s.location);
            }
            if matches!(s.kind, Kind::WithHeaders) {
                if !header_value_legal(&s.declared.a) || !header_value_legal(&s.declared.b) {
                    fail!("illegal-declared-header-sent", "declared header values {:?} {:?} are not legal but a response was built", s.declared.a, s.declared.b);
                }
            }
            let (parts, body) = resp.into_parts();
            let rt = tokio::runtime::Builder::new_current_thread().build().unwrap();
            let bytes = rt.block_on(body.collect()).map_err(|e| Failure::new("body-error", e.to_string()))?.to_bytes();
            let headers: Vec<(String, Vec<u8>)> = parts.headers.iter().map(|(n, v)| (n.as_str().to_string(), v.as_bytes().to_vec())).collect();
            st.sample(|| json!({"kind": kn, "status": parts.status.as_u16(), "headers": headers.iter().map(|(n, v)| format!("{}: {}", n, String::from_utf8_lossy(v))).collect::<Vec<_>>(), "body": truncate(&String::from_utf8_lossy(&bytes), 200)}));
            judge(s, parts.status.as_u16(), &headers, &bytes, false)
        }
    }
}

// ---- live ---------------------------------------------------------------------

type Rq = RequestContext<()>;
fn bad(e: &str) -> HttpError {
    HttpError::for_bad_request(Some("HARNESS".into()), e.to_string())
}

#[endpoint { method = POST, path = "/r/okvalue" }]
async fn vr_okvalue(_: Rq, b: TypedBody<RespSpec>) -> Result<HttpResponseOk<Value>, HttpError> {
    Ok(HttpResponseOk(b.into_inner().value))
}
#[endpoint { method = POST, path = "/r/oktyped" }]
async fn vr_oktyped(_: Rq, b: TypedBody<RespSpec>) -> Result<HttpResponseOk<RespBody>, HttpError> {
    Ok(HttpResponseOk(b.into_inner().typed))
}
#[endpoint { method = POST, path = "/r/created" }]
async fn vr_created(_: Rq, b: TypedBody<RespSpec>) -> Result<HttpResponseCreated<Value>, HttpError> {
    Ok(HttpResponseCreated(b.into_inner().value))
}
#[endpoint { method = POST, path = "/r/accepted" }]
async fn vr_accepted(_: Rq, b: TypedBody<RespSpec>) -> Result<HttpResponseAccepted<RespBody>, HttpError> {
    Ok(HttpResponseAccepted(b.into_inner().typed))
}
#[endpoint { method = POST, path = "/r/deleted" }]
async fn vr_deleted(_: Rq, _b: TypedBody<RespSpec>) -> Result<HttpResponseDeleted, HttpError> {
    Ok(HttpResponseDeleted())
}
#[endpoint { method = POST, path = "/r/updated" }]
async fn vr_updated(_: Rq, _b: TypedBody<RespSpec>) -> Result<HttpResponseUpdatedNoContent, HttpError> {
    Ok(HttpResponseUpdatedNoContent())
}
#[endpoint { method = POST, path = "/r/found" }]
async fn vr_found(_: Rq, b: TypedBody<RespSpec>) -> Result<HttpResponseFound, HttpError> {
    http_response_found(b.into_inner().location)
}
#[endpoint { method = POST, path = "/r/seeother" }]
async fn vr_seeother(_: Rq, b: TypedBody<RespSpec>) -> Result<HttpResponseSeeOther, HttpError> {
    http_response_see_other(b.into_inner().location)
}
#[endpoint { method = POST, path = "/r/tempredirect" }]
async fn vr_tempredirect(_: Rq, b: TypedBody<RespSpec>) -> Result<HttpResponseTemporaryRedirect, HttpError> {
    http_response_temporary_redirect(b.into_inner().location)
}
#[endpoint { method = POST, path = "/r/withheaders" }]
async fn vr_withheaders(_: Rq, b: TypedBody<RespSpec>) -> Result<HttpResponseHeaders<HttpResponseOk<RespBody>, DeclaredHeaders>, HttpError> {
    with_headers(&b.into_inner()).ok_or_else(|| bad("explicit header not representable"))
}

pub fn resp_api_pub() -> ApiDescription<()> {
    resp_api()
}

fn resp_api() -> ApiDescription<()> {
    let mut api = ApiDescription::new();
    api.register(vr_okvalue).unwrap();
    api.register(vr_oktyped).unwrap();
    api.register(vr_created).unwrap();
    api.register(vr_accepted).unwrap();
    api.register(vr_deleted).unwrap();
    api.register(vr_updated).unwrap();
    api.register(vr_found).unwrap();
    api.register(vr_seeother).unwrap();
    api.register(vr_tempredirect).unwrap();
    api.register(vr_withheaders).unwrap();
    api
}

fn check_live(addr: std::net::SocketAddr, rt: &tokio::runtime::Runtime, s: &RespSpec, st: &mut Stats) -> Result<(), Failure> {
    let kn = kind_name(&s.kind);
    let path = format!("/r/{}", kn.to_lowercase());
    let body = serde_json::to_vec(s).unwrap();
    let req = http1::build_request("POST", &path, &[("content-type".into(), "application/json".into())], Some(&body));
    let resp = rt
        .block_on(http1::oneshot(addr, &req, false, Duration::from_secs(10)))
        .map_err(|e| Failure::new(format!("no-response:{}", kn), format!("{}: {}", kn, e)))?;
    st.eval();
    if classify(s, st) {
        st.nontrivial(hash_of(&format!("{:?}", s)));
    }
    if resp.json().map(|j| j["error_code"] == json!("HARNESS")).unwrap_or(false) {
        st.count("skipped_explicit_header_illegal");
        return Ok(());
    }
    let is_redirect = matches!(s.kind, Kind::Found | Kind::SeeOther | Kind::TempRedirect);
    let must_fail = (is_redirect && !header_value_legal(&s.location)) || (matches!(s.kind, Kind::WithHeaders) && (!header_value_legal(&s.declared.a) || !header_value_legal(&s.declared.b)));
    if must_fail {
        st.count("refusals");
        ensure!(resp.status >= 500, format!("illegal-header-value-sent:{}", kn), "{}: an illegal header value must be refused with an error, got {}", kn, resp.status);
        ensure!(resp.header_all("location").is_empty(), format!("illegal-location-sent:{}", kn), "{}: location sent", kn);
        return Ok(());
    }
    st.sample(|| json!({"kind": kn, "status": resp.status, "headers": resp.headers.iter().map(|(n, v)| format!("{}: {}", n, String::from_utf8_lossy(v))).collect::<Vec<_>>()}));
    judge(s, resp.status, &resp.headers, &resp.body, true)
}

pub fn run(ctx: &mut Ctx) {
    ctx.rule = "response kind (Ok/Created/Accepted with JSON values and typed structs, Deleted, UpdatedNoContent, three redirects, HttpResponseHeaders) x generated values (any Unicode, control characters, u64::MAX/i64::MIN, nesting, maps) x declared header values x explicit headers that collide or not with declared names x redirect locations over all characters. Oracle: status table from the statement, content type application/json, body parses to a value equal to the returned one (and deserialises back to an equal struct), empty body for 204/3xx, declared headers present, explicit ones override declared ones of the same name, location legal (RFC 9110 field-content) iff sent. In-process through to_result() and over the wire. non-trivial = non-ASCII/large/nested value, explicit headers present, non-ASCII or illegal location; distinct by case".into();
    ctx.assume("over the wire header values are compared after OWS trimming; values not representable in JSON (NaN) are not generated");
    let n = ctx.tier.pick(20000, 300000);
    ctx.phase("to_result", n, resp_spec(), check_inproc);
    ctx.require_frac("to_result", "explicit_collides_with_declared", "kind:WithHeaders", 0.2);
    ctx.require_frac("to_result", "illegal_location", "kind:Found", 0.3);

    let srt = tokio::runtime::Builder::new_multi_thread().worker_threads(2).enable_all().build().unwrap();
    let rt = tokio::runtime::Builder::new_current_thread().enable_all().build().unwrap();
    let server = {
        let _g = srt.enter();
        let cfg = dropshot::ConfigDropshot { default_request_body_max_bytes: 1 << 22, ..Default::default() };
        start_server(resp_api(), (), cfg, None).expect("server")
    };
    let addr = server.local_addr();
    ctx.max_shrink_iters = 600;
    let n = ctx.tier.pick(4000, 50000);
    ctx.phase("live", n, resp_spec(), |s, st| check_live(addr, &rt, s, st));
    let _ = srt.block_on(server.close());
}
