//! C05 — version ranges mean what they say; conflict means a shared version.

use crate::core::*;
use crate::dynapi::*;
use crate::http1;
use crate::model::*;
use crate::{ensure, fail};
use dropshot::ApiDescription;
use proptest::prelude::*;
use serde::{Deserialize, Serialize};
use serde_json::json;
use std::cmp::Ordering;
use std::time::Duration;

fn ep(op: &str, method: &str, r: &MRange) -> MEndpoint {
    MEndpoint {
        op: op.into(),
        method: method.into(),
        segs: vec![Seg::Lit("p".into())],
        range: r.clone(),
        visible: true,
        trailing_slash: false,
    }
}

#[derive(Clone, Debug, Serialize, Deserialize)]
struct MemberCase {
    range: MRange,
    probe: MVer,
}

/// observe membership twice: lookup_route and presence in the OpenAPI doc
fn check_membership(c: &MemberCase, st: &mut Stats) -> Result<(), Failure> {
    let e = ep("the_op", "GET", &c.range);
    let api = build_api(&[e.clone()])
        .map_err(|m| Failure::new("register-single", format!("single endpoint refused: {}", m)))?;
    let expected = c.range.contains(&c.probe);
    let doc = api.openapi("t", c.probe.semver()).json().map_err(|e| {
        Failure::new("openapi-error", format!("openapi failed: {}", e))
    })?;
    let in_doc = doc["paths"]["/p"]["get"]["operationId"] == json!("the_op");
    let lookup = into_lookup(api);
    let out = lookup("GET", "/p", Some(&c.probe));
    let served = matches!(&out, LookupOut::Found { op, .. } if op == "the_op");
    st.eval();
    st.count(&format!("kind:{}", c.range.kind()));
    if expected {
        st.count("member");
    } else {
        st.count("non-member");
    }
    // non-trivial: the probe is at a boundary of the range or has a
    // pre-release component
    let at_boundary = match &c.range {
        MRange::All => false,
        MRange::From(a) | MRange::Until(a) => a == &c.probe,
        MRange::FromUntil(a, b) => a == &c.probe || b == &c.probe,
    };
    if at_boundary || !c.probe.pre.is_empty() {
        st.nontrivial(hash_of(&(&c.range, &c.probe)));
    }
    st.sample(|| json!({"range": c.range.text(), "probe": c.probe.text(), "member": expected}));
    ensure!(
        served == expected,
        format!("membership-served:{}:{}", c.range.kind(), if expected { "missing" } else { "extra" }),
        "range [{}] probe {}: statement says member={}, lookup_route says {:?}",
        c.range.text(),
        c.probe.text(),
        expected,
        out
    );
    ensure!(
        in_doc == expected,
        format!("membership-doc:{}:{}", c.range.kind(), if expected { "missing" } else { "extra" }),
        "range [{}] probe {}: statement says member={}, document lists operation: {}",
        c.range.text(),
        c.probe.text(),
        expected,
        in_doc
    );
    if !expected {
        // an endpoint outside its range is simply not there: 404
        ensure!(
            matches!(out, LookupOut::Miss { status: 404, .. }),
            "membership-miss-status",
            "range [{}] probe {}: expected 404, got {:?}",
            c.range.text(),
            c.probe.text(),
            out
        );
    }
    Ok(())
}

/// membership where the route in question shares a request path with a neighbour whose range is
/// disjoint: an exact route and a wildcard route below it (the wildcard also matches the empty
/// remainder), a literal and a variable at the same position, or two endpoints of one route
#[derive(Clone, Debug, Serialize, Deserialize)]
struct ShapeCase {
    shape: u8,
    first: MRange,
    second: MRange,
    swap: bool,
}

fn check_shape(c: &ShapeCase, st: &mut Stats) -> Result<(), Failure> {
    let mut a = ep("first_op", "GET", &c.first);
    let mut b = ep("second_op", "GET", &c.second);
    let (request, name): (&str, &str) = match c.shape % 3 {
        0 => {
            b.segs = vec![Seg::Lit("p".into()), Seg::Wild("rest".into())];
            ("/p", "exact /p + wildcard /p/{rest:.*}, request /p")
        }
        1 => {
            a.segs = vec![Seg::Lit("p".into()), Seg::Lit("x".into())];
            b.segs = vec![Seg::Lit("p".into()), Seg::Lit("x".into()), Seg::Wild("rest".into())];
            ("/p/x/", "exact /p/x + wildcard /p/x/{rest:.*}, request /p/x/")
        }
        _ => ("/p", "two endpoints on /p"),
    };
    let table = if c.swap { vec![b.clone(), a.clone()] } else { vec![a.clone(), b.clone()] };
    let api = match build_api(&table) {
        Ok(x) => x,
        Err(m) => fail!("disjoint-ranges-refused", "{}: [{}] and [{}] share no version but registration failed: {}", name, c.first.text(), c.second.text(), m),
    };
    let lookup = into_lookup(api);
    let segs: Vec<String> = request.split('/').filter(|s| !s.is_empty()).map(|s| s.to_string()).collect();
    for v in pool_probes() {
        let want: Option<&str> = if c.first.contains(&v) {
            Some("first_op")
        } else if c.second.contains(&v) {
            Some("second_op")
        } else {
            None
        };
        // the flat reference matcher must agree with the range arithmetic (self-test of the model)
        let d = dispatch(&table, "GET", &segs, Some(&v));
        ensure!(d.first().map(|x| x.0.op.as_str()) == want && d.len() <= 1, "harness-shape-model", "{} [{}]/[{}] @{}: model dispatch {:?}", name, c.first.text(), c.second.text(), v.text(), d.iter().map(|x| x.0.op.clone()).collect::<Vec<_>>());
        let out = lookup("GET", request, Some(&v));
        st.eval();
        let got = match &out {
            LookupOut::Found { op, .. } => Some(op.as_str()),
            _ => None,
        };
        ensure!(
            got == want,
            format!("membership-served-shape:{}", c.shape % 3),
            "{}: first [{}], second [{}]{}: GET {} @{} must be served by {:?}, router says {:?}",
            name,
            c.first.text(),
            c.second.text(),
            if c.swap { " (second registered first)" } else { "" },
            request,
            v.text(),
            want,
            out
        );
    }
    st.nontrivial(hash_of(&format!("{:?}", c)));
    st.sample(|| json!({"shape": name, "first": c.first.text(), "second": c.second.text()}));
    Ok(())
}

#[derive(Clone, Debug, Serialize, Deserialize)]
struct PairCase {
    first: MRange,
    second: MRange,
}

fn check_conflict(c: &PairCase, st: &mut Stats) -> Result<(), Failure> {
    let mut api: ApiDescription<DynCtx> = ApiDescription::new();
    let e1 = ep("op1", "PUT", &c.first);
    let e2 = ep("op2", "PUT", &c.second);
    let o1 = try_register(&mut api, &e1, &vec![], None, &[]);
    ensure!(o1.accepted(), "register-single", "first endpoint refused: {:?}", o1);
    let o2 = try_register(&mut api, &e2, &vec![], None, &[]);
    let expected_conflict = c.first.overlaps(&c.second);
    st.eval();
    st.count(&format!("pair:{}x{}", c.first.kind(), c.second.kind()));
    st.count(if expected_conflict { "overlap" } else { "disjoint" });
    // non-trivial: the ranges touch (share a bound) or one is a point
    let bounds = |r: &MRange| -> Vec<MVer> {
        match r {
            MRange::All => vec![],
            MRange::From(a) | MRange::Until(a) => vec![a.clone()],
            MRange::FromUntil(a, b) => vec![a.clone(), b.clone()],
        }
    };
    let b1 = bounds(&c.first);
    let touch = bounds(&c.second).iter().any(|b| b1.contains(b));
    if touch || c.first.kind() == "Point" || c.second.kind() == "Point" {
        st.nontrivial(hash_of(&(&c.first, &c.second)));
    }
    st.sample(|| json!({"first": c.first.text(), "second": c.second.text(), "conflict": expected_conflict}));
    let mut kinds = [c.first.kind(), c.second.kind()];
    kinds.sort();
    ensure!(
        !o2.accepted() == expected_conflict,
        format!(
            "conflict-{}:{}x{}",
            if expected_conflict { "missed" } else { "spurious" },
            kinds[0],
            kinds[1]
        ),
        "first [{}], second [{}]: a shared version exists = {}, registration of the second: {:?}",
        c.first.text(),
        c.second.text(),
        expected_conflict,
        o2
    );
    Ok(())
}

#[derive(Clone, Debug, Serialize, Deserialize)]
struct TripleCase {
    first: MRange,
    second: MRange,
    third: MRange,
}

/// three registrations on one method and path: the third conflicts iff it
/// shares a version with *either* of the two (disjoint) earlier ones
fn check_triple(c: &TripleCase, st: &mut Stats) -> Result<(), Failure> {
    let mut api: ApiDescription<DynCtx> = ApiDescription::new();
    for (i, r) in [&c.first, &c.second].iter().enumerate() {
        let o = try_register(&mut api, &ep(&format!("op{}", i), "PUT", r), &vec![], None, &[]);
        ensure!(o.accepted(), "register-disjoint", "[{}] after [{}] refused: {:?}", c.second.text(), c.first.text(), o);
    }
    let o3 = try_register(&mut api, &ep("op3", "PUT", &c.third), &vec![], None, &[]);
    let with_first = c.first.overlaps(&c.third);
    let with_second = c.second.overlaps(&c.third);
    let expected = with_first || with_second;
    st.eval();
    st.count(match (with_first, with_second) {
        (false, false) => "triple:disjoint",
        (true, false) => "triple:overlaps-first",
        (false, true) => "triple:overlaps-second-only",
        (true, true) => "triple:overlaps-both",
    });
    if with_second && !with_first {
        st.nontrivial(hash_of(&(&c.first, &c.second, &c.third)));
    }
    st.sample(|| json!({"first": c.first.text(), "second": c.second.text(), "third": c.third.text(), "conflict": expected}));
    ensure!(
        !o3.accepted() == expected,
        format!("conflict-{}:third-registration", if expected { "missed" } else { "spurious" }),
        "registered [{}], then [{}]; third [{}] shares a version with the first: {}, with the second: {}; registration said {:?}",
        c.first.text(),
        c.second.text(),
        c.third.text(),
        with_first,
        with_second,
        o3
    );
    Ok(())
}

/// three registrations of one method spread over an exact route `/p` and the wildcard route
/// `/p/{rest:.*}` below it (which also matches the request `/p`): each registration is refused iff
/// its range shares a version with an earlier *accepted* one on either route
#[derive(Clone, Debug, Serialize, Deserialize)]
pub struct ShapeTripleCase {
    /// per registration: is it the wildcard route?
    wild: [bool; 3],
    ranges: [MRange; 3],
}

pub fn check_shape_triple(c: &ShapeTripleCase, st: &mut Stats) -> Result<(), Failure> {
    let mut api: ApiDescription<DynCtx> = ApiDescription::new();
    let mut accepted: Vec<usize> = vec![];
    let show = |i: usize| format!("{} [{}]", if c.wild[i] { "PUT /p/{rest:.*}" } else { "PUT /p" }, c.ranges[i].text());
    for i in 0..3 {
        let mut e = ep(&format!("op{}", i), "PUT", &c.ranges[i]);
        if c.wild[i] {
            e.segs = vec![Seg::Lit("p".into()), Seg::Wild("rest".into())];
        }
        let spec = crate::dynapi::default_path_spec(&e);
        let o = try_register(&mut api, &e, &spec, None, &[]);
        let clash: Vec<usize> = accepted.iter().copied().filter(|j| c.ranges[*j].overlaps(&c.ranges[i])).collect();
        st.eval();
        if i == 2 {
            let mixed = accepted.iter().any(|j| c.wild[*j] != c.wild[i]);
            st.count(match (clash.is_empty(), mixed) {
                (true, _) => "shape-triple:third-disjoint",
                (false, true) => "shape-triple:third-overlaps-across-routes",
                (false, false) => "shape-triple:third-overlaps-same-route",
            });
            if !clash.is_empty() && clash.iter().all(|j| c.wild[*j] != c.wild[i]) {
                st.nontrivial(hash_of(&format!("{:?}", c)));
            }
        }
        ensure!(
            o.accepted() == clash.is_empty(),
            format!("conflict-{}:route-shapes", if clash.is_empty() { "spurious" } else { "missed" }),
            "after accepting [{}], registration #{} {} shares a version with {:?} (both routes serve the request /p): registration said {:?}",
            accepted.iter().map(|j| show(*j)).collect::<Vec<_>>().join("; "),
            i + 1,
            show(i),
            clash.iter().map(|j| show(*j)).collect::<Vec<_>>(),
            o
        );
        if o.accepted() {
            accepted.push(i);
        }
    }
    st.sample(|| json!({"registrations": (0..3).map(show).collect::<Vec<_>>(), "accepted": accepted}));
    Ok(())
}

pub fn shape_triple_cases() -> Vec<ShapeTripleCase> {
    let p = pool();
    let sub: Vec<MVer> = vec![p[0].clone(), p[2].clone(), p[4].clone(), p[6].clone()];
    let rs = all_ranges(&sub);
    let mut out = vec![];
    for w in 1..7u8 {
        // every assignment of the three registrations to the two routes except all-exact / all-wild... keep those too for the wild route
        let wild = [w & 1 != 0, w & 2 != 0, w & 4 != 0];
        for a in &rs {
            for b in &rs {
                for c3 in &rs {
                    out.push(ShapeTripleCase { wild, ranges: [a.clone(), b.clone(), c3.clone()] });
                }
            }
        }
    }
    out
}

#[derive(Clone, Debug, Serialize, Deserialize)]
struct CtorCase {
    a: MVer,
    b: MVer,
}

fn check_ctor(c: &CtorCase, st: &mut Stats) -> Result<(), Failure> {
    let r = dropshot::ApiEndpointVersions::from_until(c.a.semver(), c.b.semver());
    let expect_err = ver_lt(&c.b, &c.a);
    st.eval();
    st.count(if expect_err { "reversed" } else { "ordered" });
    if c.a.major == c.b.major && c.a.minor == c.b.minor && c.a.patch == c.b.patch {
        st.nontrivial(hash_of(&(&c.a, &c.b)));
    }
    st.sample(|| json!({"from": c.a.text(), "until": c.b.text(), "expect_err": expect_err}));
    ensure!(
        r.is_err() == expect_err,
        "from_until-order",
        "from_until({}, {}): expected error = {}, got {:?}",
        c.a.text(),
        c.b.text(),
        expect_err,
        r.is_ok()
    );
    Ok(())
}

// ---- random versions --------------------------------------------------

fn ident_strategy() -> impl Strategy<Value = String> {
    prop_oneof![
        // numeric identifiers without leading zeros
        (0u64..12).prop_map(|n| n.to_string()),
        any::<u64>().prop_map(|n| n.to_string()),
        // alphanumeric
        "[a-c]{1,2}",
        "[0-9]{0,2}[a-zA-Z-][0-9a-zA-Z-]{0,3}",
        Just("alpha".to_string()),
        Just("rc".to_string()),
        Just("0".to_string()),
        Just("-".to_string()),
    ]
}

pub fn version_strategy() -> impl Strategy<Value = MVer> {
    let num = prop_oneof![
        4 => 0u64..3,
        1 => any::<u64>(),
        1 => Just(u64::MAX),
    ];
    (num.clone(), num.clone(), num, prop_oneof![
        2 => Just(vec![]),
        3 => proptest::collection::vec(ident_strategy(), 1..4),
    ])
        .prop_map(|(major, minor, patch, pre)| MVer { major, minor, patch, pre })
}

fn range_of(kind: u8, mut a: MVer, mut b: MVer) -> MRange {
    if ver_lt(&b, &a) {
        std::mem::swap(&mut a, &mut b);
    }
    match kind % 5 {
        0 => MRange::All,
        1 => MRange::From(a),
        2 => MRange::Until(b),
        3 => MRange::FromUntil(a, b),
        _ => MRange::FromUntil(a.clone(), a),
    }
}

#[derive(Clone, Debug, Serialize, Deserialize)]
struct RandCase {
    /// a small set of versions; ranges and probes are built from it so that
    /// coincidences (equal bounds) are frequent
    vs: Vec<MVer>,
    k1: u8,
    k2: u8,
    i: [u16; 5],
}

fn check_random(c: &RandCase, st: &mut Stats) -> Result<(), Failure> {
    let v = |i: u16| pick(i, &c.vs).clone();
    // harness self-test first: own comparator vs semver's Ord.  A
    // disagreement is not a statement about dropshot; it is reported as a
    // distinct class so that triage can tell.
    for x in &c.vs {
        for y in &c.vs {
            let mine = ver_cmp(x, y);
            let theirs = x.semver().cmp(&y.semver());
            ensure!(
                mine == theirs,
                "selftest-precedence",
                "own precedence({}, {}) = {:?} but semver crate says {:?}",
                x.text(),
                y.text(),
                mine,
                theirs
            );
            ensure!(
                (mine == Ordering::Equal) == (x == y),
                "selftest-precedence-eq",
                "equal precedence for different versions {} {}",
                x.text(),
                y.text()
            );
        }
    }
    let r1 = range_of(c.k1, v(c.i[0]), v(c.i[1]));
    let r2 = range_of(c.k2, v(c.i[2]), v(c.i[3]));
    let probe = v(c.i[4]);
    check_membership(&MemberCase { range: r1.clone(), probe: probe.clone() }, st)?;
    check_membership(&MemberCase { range: r2.clone(), probe }, st)?;
    check_conflict(&PairCase { first: r1, second: r2 }, st)?;
    Ok(())
}

// ---- header policy (live) ---------------------------------------------

#[derive(Clone, Debug, Serialize, Deserialize)]
enum HeaderVal {
    /// a syntactically valid version
    Version(MVer),
    /// no header at all
    Missing,
    /// constructed-unparsable text
    Bad(String),
    /// raw bytes that are not visible ASCII (sent as-is)
    NonAscii(Vec<u8>),
}

#[derive(Clone, Debug, Serialize, Deserialize)]
struct HeaderCase {
    /// which API the server carries: 0 the ladder, 1 only unrestricted endpoints,
    /// 2 an unrestricted endpoint on the probed path and a restricted one elsewhere
    #[serde(default)]
    api: u8,
    val: HeaderVal,
    /// spelling of the header name
    upper_name: bool,
}

/// the ladder partitions the version line: until 1.0.0-alpha | [1.0.0-alpha,
/// 1.0.0) | [1.0.0, 1.0.0] | ... so every version is served by exactly one
/// step for GET; PUT exists only from 1.0.1.
fn ladder() -> Vec<MEndpoint> {
    let p = pool();
    let mut out = vec![];
    out.push(ep("step_until_alpha", "GET", &MRange::Until(p[1].clone())));
    out.push(ep("step_alpha_beta", "GET", &MRange::FromUntil(p[1].clone(), p[3].clone())));
    out.push(ep("step_beta_100", "GET", &MRange::FromUntil(p[3].clone(), p[4].clone())));
    out.push(ep("step_100_101", "GET", &MRange::FromUntil(p[4].clone(), p[5].clone())));
    out.push(ep("step_101_200", "GET", &MRange::FromUntil(p[5].clone(), p[6].clone())));
    out.push(ep("step_from_200", "GET", &MRange::From(p[6].clone())));
    out.push(ep("put_from_101", "PUT", &MRange::From(p[5].clone())));
    out
}

fn header_tables() -> Vec<Vec<MEndpoint>> {
    let p = pool();
    let mut other = ep("elsewhere_from_100", "GET", &MRange::From(p[4].clone()));
    other.segs = vec![Seg::Lit("elsewhere".into())];
    let mut deeper = ep("deeper_all", "GET", &MRange::All);
    deeper.segs = vec![Seg::Lit("q".into()), Seg::Var("v1".into())];
    vec![
        ladder(),
        vec![ep("plain_get", "GET", &MRange::All), ep("plain_put", "PUT", &MRange::All), deeper],
        vec![ep("plain_get", "GET", &MRange::All), other],
        // the ladder again, on a server whose newest supported version is a pre-release
        ladder(),
    ]
}

/// newest supported version of the server carrying `header_tables()[i]`
fn header_max(i: usize) -> &'static str {
    if i == 3 {
        "1.0.0-beta"
    } else {
        MAX_VERSION
    }
}

const MAX_VERSION: &str = "2.5.0";

fn bad_header_strategy() -> impl Strategy<Value = String> {
    prop_oneof![
        Just("".to_string()),
        Just("1.0".to_string()),
        Just("1".to_string()),
        Just("v1.0.0".to_string()),
        Just("01.0.0".to_string()),
        Just("1.00.0".to_string()),
        Just("1.0.0-".to_string()),
        Just("1.0.0-01".to_string()),
        Just("1.0.0-a..b".to_string()),
        Just("1. 0.0".to_string()),
        Just("1.0.0 1.0.0".to_string()),
        Just("1.0.0,1.0.1".to_string()),
        Just("1.0.0.0".to_string()),
        Just("-1.0.0".to_string()),
        Just("+1.0.0".to_string()),
        Just("1.0.x".to_string()),
        Just("*".to_string()),
        Just(">=1.0.0".to_string()),
        Just("18446744073709551616.0.0".to_string()),
        Just("1.0.0-é".to_string()),
        "[a-zA-Z!#$&*^_|~ ]{1,12}",
        "[0-9]{1,3}\\.[0-9]{1,3}",
        "[0-9]{1,2}\\.[0-9]{1,2}\\.[0-9]{1,2}[ _/:@][a-z0-9]{1,4}",
    ]
}

fn header_case_strategy() -> impl Strategy<Value = HeaderCase> {
    let val = prop_oneof![
        5 => version_strategy().prop_map(HeaderVal::Version),
        5 => (0u16..u16::MAX).prop_map(|i| HeaderVal::Version(pick(i, &pool_probes()).clone())),
        1 => Just(HeaderVal::Missing),
        5 => bad_header_strategy().prop_map(HeaderVal::Bad),
        1 => proptest::collection::vec(prop_oneof![0x80u8..=0xff, 0x21u8..0x7f], 1..8)
            .prop_filter("needs a non-ascii byte", |v| v.iter().any(|b| *b >= 0x80))
            .prop_map(HeaderVal::NonAscii),
    ];
    (prop_oneof![2 => Just(0u8), 1 => Just(1u8), 1 => Just(2u8), 2 => Just(3u8)], val, any::<bool>()).prop_map(|(api, val, upper_name)| HeaderCase { api, val, upper_name })
}

struct Live {
    addr: std::net::SocketAddr,
    server: dropshot::HttpServer<DynCtx>,
}

fn check_header(lives: &[Live], rt: &tokio::runtime::Runtime, c: &HeaderCase, st: &mut Stats) -> Result<(), Failure> {
    let tables = header_tables();
    let which = c.api as usize % tables.len();
    let table = tables[which].clone();
    let live = &lives[which];
    st.count(&format!("api:{}", which));
    let max = MVer::parse(header_max(c.api as usize % header_tables().len()));
    let name = if c.upper_name { "X-Verif-Version" } else { "x-verif-version" };
    let mut head = format!("GET /p HTTP/1.1\r\nhost: h\r\n").into_bytes();
    match &c.val {
        HeaderVal::Missing => {}
        HeaderVal::Version(v) => head.extend_from_slice(format!("{}: {}\r\n", name, v.text()).as_bytes()),
        HeaderVal::Bad(s) => head.extend_from_slice(format!("{}: {}\r\n", name, s).as_bytes()),
        HeaderVal::NonAscii(b) => {
            head.extend_from_slice(format!("{}: ", name).as_bytes());
            head.extend_from_slice(b);
            head.extend_from_slice(b"\r\n");
        }
    }
    head.extend_from_slice(b"\r\n");
    let before = live.server.app_private().entered.load(std::sync::atomic::Ordering::SeqCst);
    let resp = rt
        .block_on(http1::oneshot(live.addr, &head, false, Duration::from_secs(10)))
        .map_err(|e| Failure::new("no-response", format!("case {:?}: {}", c, e)))?;
    let after = live.server.app_private().entered.load(std::sync::atomic::Ordering::SeqCst);
    st.eval();
    match &c.val {
        HeaderVal::Version(v) if ver_le(v, &max) => {
            st.count("hdr:supported");
            if !v.pre.is_empty() || pool().contains(v) {
                st.nontrivial(hash_of(&("ok", v)));
            }
            let segs = vec!["p".to_string()];
            let d = dispatch(&table, "GET", &segs, Some(v));
            ensure!(d.len() == 1, "harness-ladder", "table {} does not serve GET /p exactly once at {}", which, v.text());
            let want = &d[0].0.op;
            let got = resp.json().map(|j| j["op"].clone());
            ensure!(
                resp.status == 200 && got == Some(json!(want)),
                "header-routing",
                "api {}: header version {}: expected 200 from {}, got {} {:?}",
                which,
                v.text(),
                want,
                resp.status,
                resp.body_text()
            );
            ensure!(after == before + 1, "header-entered", "handler entry count moved by {}", after - before);
        }
        other => {
            let class = match other {
                HeaderVal::Version(_) => "hdr:too-new",
                HeaderVal::Missing => "hdr:missing",
                HeaderVal::Bad(_) => "hdr:unparsable",
                HeaderVal::NonAscii(_) => "hdr:non-ascii",
            };
            st.count(class);
            st.nontrivial(hash_of(&format!("{:?}", other)));
            ensure!(
                (400..500).contains(&resp.status),
                format!("header-refusal:{}", class),
                "api [{}], GET /p with {:?}: expected a 4xx, got {} {:?}",
                table.iter().map(|e| format!("{} {} [{}]", e.method, e.template(), e.range.text())).collect::<Vec<_>>().join("; "),
                other,
                resp.status,
                resp.body_text()
            );
            ensure!(
                after == before,
                format!("header-refusal-entered:{}", class),
                "{:?}: a handler ran ({} entries)",
                other,
                after - before
            );
        }
    }
    st.sample(|| json!({"header": format!("{:?}", c.val), "status": resp.status}));
    Ok(())
}

pub fn run(ctx: &mut Ctx) {
    ctx.rule = "membership_shapes: every pair of disjoint ranges on an exact route + the wildcard route below it (request = the exact path, with and without trailing slash) or on one route, both registration orders, 9 probes each; conflict_triples_route_shapes: every sequence of three registrations of one method over the exact route and the wildcard route below it x all ranges over a 4-version sub-pool (each refused iff it shares a version with an earlier accepted one on either route); membership/conflict: complete enumeration of all 43 ranges over a 7-version ordered pool (with pre-releases) x 9 probes and all 1849 ordered pairs, plus random semver triples; non-trivial = probe on a range bound or with a pre-release, pair sharing a bound or containing a one-version range; header cases against four servers (a ladder of ranges partitioning the version line; only unrestricted endpoints; an unrestricted endpoint plus a restricted one elsewhere; the ladder with a pre-release as newest supported version): non-trivial = pool/pre-release versions and every refusal class instance (distinct by value)".into();
    ctx.assume("build metadata is never generated (precedence ignores it and the macro rejects it)");
    ctx.assume("the least semver version 0.0.0-0 is not used as an Until bound (empty range)");

    let p = pool();
    let ranges = all_ranges(&p);
    let probes = pool_probes();

    let mut cases = vec![];
    for r in &ranges {
        for v in &probes {
            cases.push(MemberCase { range: r.clone(), probe: v.clone() });
        }
    }
    ctx.enumerate("membership", cases, true, check_membership);

    let mut shapes = vec![];
    for a in &ranges {
        for b in &ranges {
            if a.overlaps(b) {
                continue;
            }
            for shape in 0..3u8 {
                for swap in [false, true] {
                    shapes.push(ShapeCase { shape, first: a.clone(), second: b.clone(), swap });
                }
            }
        }
    }
    ctx.enumerate("membership_shapes", shapes, true, check_shape);

    let mut pairs = vec![];
    for a in &ranges {
        for b in &ranges {
            pairs.push(PairCase { first: a.clone(), second: b.clone() });
        }
    }
    ctx.enumerate("conflict", pairs, true, check_conflict);

    // all triples over a 4-version sub-pool (all 16+ ranges): first two disjoint, third arbitrary
    let sub: Vec<MVer> = vec![p[0].clone(), p[2].clone(), p[4].clone(), p[6].clone()];
    let sub_ranges = all_ranges(&sub);
    let mut triples = vec![];
    for a in &sub_ranges {
        for b in &sub_ranges {
            if a.overlaps(b) {
                continue;
            }
            for c3 in &sub_ranges {
                triples.push(TripleCase { first: a.clone(), second: b.clone(), third: c3.clone() });
            }
        }
    }
    ctx.enumerate("conflict_triples", triples, true, check_triple);
    ctx.enumerate("conflict_triples_route_shapes", shape_triple_cases(), true, check_shape_triple);

    let mut ctor = vec![];
    for a in &probes {
        for b in &probes {
            ctor.push(CtorCase { a: a.clone(), b: b.clone() });
        }
    }
    ctx.enumerate("from_until", ctor, true, check_ctor);

    let n = ctx.tier.pick(30000, 400000);
    let strat = (
        proptest::collection::vec(version_strategy(), 1..5),
        any::<u8>(),
        any::<u8>(),
        any::<[u16; 5]>(),
    )
        .prop_map(|(vs, k1, k2, i)| RandCase { vs, k1, k2, i });
    ctx.phase("random_semver", n, strat, check_random);

    // live header policy
    let lives: Vec<Live> = header_tables()
        .iter()
        .enumerate()
        .map(|(ti, t)| {
            let _g = ctx.rt.enter();
            let api = build_api(t).expect("header tables must register");
            let policy = dropshot::VersionPolicy::Dynamic(Box::new(dropshot::ClientSpecifiesVersionInHeader::new(
                http::HeaderName::from_static("x-verif-version"),
                MVer::parse(header_max(ti)).semver(),
            )));
            let server = start_server(api, DynCtx::default(), Default::default(), Some(policy)).expect("server");
            Live { addr: server.local_addr(), server }
        })
        .collect();
    let n = ctx.tier.pick(15000, 200000);
    {
        let rt = tokio::runtime::Builder::new_current_thread().enable_all().build().unwrap();
        ctx.phase("header_live", n, header_case_strategy(), |c, st| check_header(&lives, &rt, c, st));
    }
    ctx.require_frac("header_live", "hdr:supported", "hdr:supported", 0.0);
    for l in lives {
        let _ = ctx.rt.block_on(l.server.close());
    }
}
