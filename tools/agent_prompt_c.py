#!/usr/bin/env python3
"""third-round prompt: tells the agent which mechanisms were already used"""
import json,sys,glob,subprocess
pid,tag=sys.argv[1],sys.argv[2]
prev=[]
for d in sorted(glob.glob(f'/verif/seeded/{pid}?')):
    try: prev.append(json.load(open(d+'/meta.json'))['breaks'])
    except Exception: pass
hint="Earlier attempts at this same property already used the following changes; choose a DIFFERENT code site and a different mechanism (do not repeat these): " + " || ".join(p[:260] for p in prev) + " Consider less travelled paths such as the HTTPS/TLS accept path, HTTP/2, the API-trait and channel macros, OpenAPI generation details, error/fallback paths, or interactions between two features."
out=subprocess.run(['python3','/verif/tools/agent_prompt.py',pid,tag,hint],capture_output=True,text=True).stdout
print(out)
