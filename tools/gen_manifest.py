#!/usr/bin/env python3
"""Regenerates /verif/MANIFEST.json from the table below."""
import json, sys
props=[json.loads(l) for l in open('/verif/properties.jsonl')]
ids=[p['id'] for p in props]

# id -> (technique, level text, level note, design ref)
BUILT={
"C19": ("generated programs: a seeded grammar emits endpoint/channel declarations (the generator-side record) rendered as free functions, API-trait methods with an implementation, and the trait stub; compiled, then record vs routing vs OpenAPI and three-style differential",
        "150 (thorough 500) declarations over method, path shapes, tags, all five version-range syntaxes with literals and const paths, operation_id, content_type, request_body_max_bytes (literal/const), deprecated, unpublished, extractor lists in both orders, all response kinds, custom error type, four doc-comment shapes, channels. For every declaration and 8 probe versions: lookup_route in each of the three styles returns the declared operation id, content type and body limit exactly for member versions and nothing otherwise; the OpenAPI operation shows the declared method, path, id, tags, deprecated flag, body content type and websocket extension, is absent when unpublished or out of range, and summary+description equal the doc-comment words once whitespace is removed; write() bytes of the three styles are identical at every version.",
        "The declaration grammar is finite; compile-time rejection is out of scope; a generated program that does not compile is reported as INCONCLUSIVE (exit 2).",
        "DESIGN.md section 4 C19"),

"C07": ("proptest over (API, operation, seed): requests built from the OpenAPI document alone (schema-directed instance generator + OpenAPI-3.0 validator) replayed against live servers; responses validated against the document",
        "For four compiled APIs (echo round trip and document-independent value endpoints for ~60 zoo types; typed path/query/JSON/form/multipart/raw endpoints; every response kind; paginated endpoints) plus two generated API programs (function style and trait style, served at three versions): a request consisting of the documented path, all required parameters, a random subset of optional ones and a body the validator accepts for the documented request schema must be answered with a documented success status (handler entered once); status, content type and body of every response must be among those documented (body validated against the documented schema, required response headers present); omitting each required query parameter must give a 4xx without handler entry, and that framework error must validate against the documented error response.",
        "Sampling; operations whose schemas use a string format the harness cannot generate are skipped and counted; instances are conservative (no properties the schema does not name); values returned by the value endpoints are restricted to those the type's own schema admits.",
        "DESIGN.md section 4 C07"),

"C08": ("proptest differential between two independent validators (JSON Schema draft-07 on the type's own schemars schema vs OpenAPI 3.0 on the published schema) over schema-directed valid/near-miss instances, plus a structural keyword-preservation walk; compiled type zoo and run-time keyword enrichment",
        "About 70 compiled types (all numeric widths, formats, options, sequences, sets, maps, nested/recursive/generic structs, enums in every serde representation incl. overlapping untagged ones, flatten, deny_unknown_fields, range/length/regex attributes, docs, defaults, deprecated, examples) are published as request body and response through ApiDescription::openapi(); for generated instances the verdict of a draft-07 validator on schemars' draft-07 schema must equal the verdict of an OpenAPI-3.0 validator on the published schema; every constraint keyword and listed annotation in the schema handed to dropshot must have its dialect image in the published schema; the same two oracles run on those schemas enriched at random positions with keywords from the statement's vocabulary, published inline and by reference.",
        "Sampling; 'supported' = the converter does not raise one of its explicit unsupported panics (counted, not judged); own validators cover the keyword subset schemars 0.8 emits; integer bounds added by enrichment are integral.",
        "DESIGN.md section 4 C08"),

"C16": ("proptest over disconnect scenarios (task mode x concurrent clients x endpoint x HTTP/1.1 or HTTP/2 x disconnect point x FIN/RST) on live servers; history invariant over a life-cycle event log",
        "Harness handlers append Entered/Completed to a sequence-numbered log and a guard object appends Dropped (or Panicked) when the handler future is dropped early; per scenario: every entered handler ends exactly one way exactly once; detached mode: never cancelled, always completed, also over HTTP/2 and for handlers that drop their RequestContext early; cancel-on-disconnect: a handler whose client sent the complete request and left is cancelled within a 2.5 s grace period and never completes; stayers complete and read full correct responses; unfinished requests never enter a handler; a panicking handler fails only its own request; health probe afterwards.",
        "Sampling of client-side schedules only: tokio's scheduler and kernel socket timing are not controlled, so a violation needing one specific interleaving may be missed; cancellation is judged after a grace period by further progress, never by latency.",
        "DESIGN.md section 4 C16"),
"C17": ("proptest over shutdown scenarios (connections in generated states at the moment close() is called, release delays after close, waiters, both modes, HTTP/1.1 and HTTP/2); event-order invariant",
        "close() is called while connections are in generated states (in-flight stayer/leaver, half-read 4 MiB response, idle keep-alive, half-sent request); handlers are released 0-120 ms after close() was called. Stayers must read complete correct responses; Completed(id) of every in-flight handler and of every detached handler must precede CloseReturned in the log; connect() to the old address must be refused afterwards; close() and 1-3 wait_for_shutdown() futures must resolve to the same result.",
        "Sampling of schedules; liveness only within a 30 s bound.",
        "DESIGN.md section 4 C17"),
"C18": ("proptest over batches of hostile connection scripts on raw TCP (random bytes, truncation at generated/every offset, 24 constructed-malformed requests, oversized requests, HTTP/2 garbage, TLS hello, panicking handler) with interleaved health probes; strict response grammar oracle",
        "Everything the server sends back must parse under the harness' own strict HTTP/1.1 response grammar; requests malformed by the grammar must be answered >= 400 (or not at all); a health request on a fresh connection during and after every batch must return 200 'ok'; every truncation offset of four fixed valid requests is enumerated (every 7th in quick) with FIN and RST; the server must close cleanly at the end.",
        "No coverage-guided fuzzing here (server state must persist across inputs); spellings lenient HTTP parsers accept are not required to be refused; shutdown liveness reported as inconclusive.",
        "DESIGN.md section 4 C18"),

"C15": ("proptest over (collection size, client limit, order, later-page limit) full scans against a live keyset-paginated endpoint; concatenation/size/token/termination oracle",
        "Each case follows next_page tokens from the first page to the end over real HTTP: the concatenation of pages must equal the collection in order, every page must hold at most the effective limit (client limit capped at 10000, default 100), a token must be present exactly when the page is non-empty, and the scan must finish within ceil(n/l)+1 requests (one more is reported as non-termination, not waited for).",
        "Sampling over n in 0..1200 densely plus 5000..25000 for large limits; the collection is static.",
        "DESIGN.md section 4 C15"),
"C20": ("proptest over raw-TCP handshakes (key bytes, Connection/Upgrade list spellings, presence/wrongness mask, post-upgrade payloads); own SHA-1/base64 digest oracle and byte-exact echo",
        "All four elements present (in any legal list spelling: case, order, extra tokens, OWS, several field lines) => 101 with Sec-WebSocket-Accept equal to an independently computed RFC 6455 digest, Upgrade/Connection response headers, channel handler entered exactly once, payload of up to 256 KiB echoed byte for byte; any element missing or wrong => 4xx and the channel handler never entered.",
        "Sampling; empty key values not generated; SHA-1/base64 implementation self-tested on the RFC vector at start-up.",
        "DESIGN.md section 4 C20"),

"C11": ("proptest over (server default x endpoint override x extractor x body length around/beyond the limit x framing/chunk boundaries), live servers; accepted-intact-iff-within-limit oracle plus bytes-observed bound",
        "For every generated configuration a live server is started; a body of exactly chosen length (0, L-2..L+2, 2L, up to 1 MiB) is sent with content-length or chunked framing whose chunk boundaries fall at, just before and just after the limit; len <= L must be delivered intact (length + hash, and the handler sees limit L), len > L must get a 4xx with buffered handlers never entered; the largest running total any streaming handler observed after each chunk and the largest buffer any buffered handler saw must never exceed L.",
        "Sampling; frame boundaries inside hyper are influenced but not controlled by the chunking; an empty body for the JSON extractor is replaced by a 1-byte body.",
        "DESIGN.md section 4 C11"),
"C12": ("proptest over response kinds x values x declared/explicit headers x redirect locations; status-table / JSON round-trip / header-override / RFC 9110 field-content oracles, in-process to_result() and live",
        "Every response kind is built from generated values (any Unicode, control characters, u64::MAX/i64::MIN, nesting, maps) and judged in-process through HttpResponse::to_result() and over the wire through one endpoint per kind: status from the statement's table, content type application/json, body parses to a value equal to the returned one and deserialises back to an equal struct, empty body for 204/3xx, declared headers present, explicit headers override declared ones of the same name (all explicit values sent), redirect location sent iff it is a legal header value, else an error.",
        "Sampling; header values compared after OWS trimming on the wire; NaN/infinity not generated.",
        "DESIGN.md section 4 C12"),
"C14": ("proptest over selectors sized around the 512-character bound (round trip through ResultsPage::new and PaginationParams), constructed-invalid tokens and free mutations judged against an independent lenient base64url/JSON decoder, live limit-clamp table",
        "Issued tokens must be accepted back to an equal selector, alone and next to arbitrary ill-typed scan parameters; the framework may refuse to issue only tokens that would exceed the bound; tokens invalid by construction (over-long but otherwise valid, character outside the URL-safe alphabet, base64 of non-JSON, missing/wrong version, wrong shape, trailing garbage, empty) must be refused without panic; mutated tokens, if accepted, must yield the selector an independent lenient decoder finds; live: bad tokens get 4xx, effective page size = min(limit, 10000), default 100, zero/negative/non-numeric/fractional/over-u32 limits get 4xx and no handler entry.",
        "Sampling; selectors contain no floats; own base64url implementation is the reference.",
        "DESIGN.md section 4 C14"),

"C09": ("proptest over batches of concurrent/pipelined clients sending values in every legal encoding to typed echo endpoints; round-trip (encode -> serve -> echo) oracle",
        "Values of every declared parameter/body type (strings over all of Unicode, numeric extremes, bools, enums, options, vectors, maps, nested/recursive structs, uuid, raw bytes, multipart parts) are encoded by independent client-side encoders with randomized but legal style choices (percent-encoding eagerness/hex case, + vs %20, key order, JSON escapes and whitespace, null vs absent, content-type spelling and parameters, quoted multipart boundary, content-length vs chunked with extensions/trailers, TCP write splits) and sent by up to 16 (thorough 64) concurrent clients with keep-alive and pipelining; each echo must equal what was encoded and carry its own request's method, URI, header tag, peer address and request id.",
        "Sampling; server-side thread interleavings are not controlled (only schedule-independent equalities are asserted). JSON floats restricted to exactly-parsed values. A connection closed by the server between responses is retried like a real client would.",
        "DESIGN.md section 4 C09"),
"C10": ("proptest: valid request (C09 generator) + exactly one constructed malformation from a (position x kind) table; status/shape/handler-counter oracle on a live server",
        "Every malformed request is invalid by construction (ill-typed, out-of-range, unknown variant, missing, duplicated, 17 kinds of malformed JSON incl. truncation at every offset and trailing data, wrong/undecodable content type) in every path, query, JSON and form position; the unmodified request is first confirmed accepted; the malformed one must get a 4xx framework error with matching request id, the per-operation handler-entry counter must not move, and follow-up requests on the same and on a fresh connection must succeed.",
        "Sampling over the malformation table; spellings the Rust parsers accept (leading '+', etc.) and float overflow are excluded from the table.",
        "DESIGN.md section 4 C10"),

"C01": ("proptest over constructively generated route tables x registration orders x probes, differential against a flat-list reference matcher (in-process lookup_route + live echo server)",
        "Generated accepted route tables (trie shapes x methods x disjoint version ranges), each registered in two shuffled orders; every probe's outcome (endpoint and variable bindings) is compared with an independent naive matcher, in-process through lookup_route and over the wire through a handler that echoes operation id and the Path<T> it received.",
        "Sampling over depth<=4 tables of <=24 endpoints; methods in canonical upper case; dot-segments/invalid UTF-8 are C03's domain.",
        "DESIGN.md section 4 C01"),
"C02": ("proptest over registration histories on a conflict-rich tiny alphabet; reference conflict rules + exhaustive small-alphabet path enumeration for uniqueness and reachability",
        "Each registration step is judged against the statement's rejection rules (both directions: conflicting must be refused, clean must be accepted); after the history (and at one intermediate step) every concrete path of depth<=4 over 4 segment values x 3 methods x 9 versions is enumerated: at most one accepted endpoint matches (independent matcher), the router agrees, and every accepted endpoint is reached.",
        "Sampling over histories; enumeration is exhaustive only over the small alphabet. Tag policy on unpublished endpoints and scalar/int-array types for wildcards are treated as unspecified.",
        "DESIGN.md section 4 C02"),
"C03": ("proptest (and libFuzzer in thorough) over raw request paths on the full byte range with every encoding choice; reference normaliser oracle + slash-variant metamorphic relation",
        "Raw paths built from segments over all 256 byte values with per-byte raw/%hh (lower, upper, mixed hex) choices, 1-3 slashes, extra leading/trailing slashes; the outcome (delivered segment list, or 400 with no handler run) must equal a split-decode-once-check reference normaliser, in-process against a wildcard table and a literal/variable table and live through a wildcard echo handler; slash variants must agree.",
        "Sampling. Malformed percent escapes: only no-5xx asserted. Over the wire non-URI bytes are percent-encoded.",
        "DESIGN.md section 4 C03"),
"C04": ("proptest over route tables with miss-biased probes; served_methods oracle from the flat-list reference matcher (in-process + live Allow header bytes and handler counter)",
        "For every probe that matches no endpoint: 404 iff no method is served for that path at that version, else 405 whose Allow field lines (comma-split) equal exactly the set of methods served at that version; live, additionally no handler entry is counted.",
        "Sampling; same table domain as C01.",
        "DESIGN.md section 4 C04"),
"C06": ("proptest over endpoint sets x 3 registration permutations x 9 versions; set-equality, ref-closure and byte-equality oracles",
        "For every version: documented (method, path, operationId) set equals published-and-in-range set from the model; every $ref in the document resolves inside it; write() bytes equal across three registration permutations and across two calls; every in-range endpoint (published or not) is served by lookup_route. Handler shapes come from a compiled zoo forcing $refs (nested, recursive, same-name types, custom error responses).",
        "Sampling; the top-level tags array is not asserted.",
        "DESIGN.md section 4 C06"),

"C05": ("exhaustive enumeration over an order-complete version pool + proptest random semver + live header fuzz, interval-algebra oracle",
        "Complete enumeration of all 43 ranges x 9 probes (membership seen twice: lookup_route and OpenAPI) and all 1849 ordered range pairs (conflict seen at registration) over a 7-version pool incl. pre-releases; by order-invariance of the predicates this covers every order type of bounds. Random u64/pre-release versions exercise precedence itself against an own semver section-11 comparator; a live versioned server is fuzzed with valid, too-new, missing and constructed-unparsable header values.",
        "Exhaustive only over the stated pool abstraction; random part is sampling. Build metadata never generated. Oracle = interval algebra + own precedence comparator (cross-checked against the semver crate).",
        "DESIGN.md section 4 C05"),
"C13": ("exhaustive u16 sweep + proptest over constructors x statuses x texts + live request sequences, exact-contract oracle",
        "All 65536 u16 through every conversion of both status types; generated errors from every public constructor x every admissible status x adversarial message/code/header text checked against the exact response contract and for substring non-leak of a marked internal message; long live sequences of mixed success/error requests check x-request-id presence, uniqueness and equality with the id the handler saw and the id in the body.",
        "Sampling except for the u16 sweep. Attached header names avoid content-type/x-request-id; responses hyper itself produces for unparsable HTTP are out of scope.",
        "DESIGN.md section 4 C13"),
}
# phases added after the seed rounds (DESIGN.md sections 9 and 12); appended to the level text
ADDED={
"C01": " Further phases: accepted_sets (sets with arbitrary extra version ranges that dropshot accepts completely in an order and its reverse must dispatch identically and no probe may match two accepted endpoints) and unversioned_servers (one endpoint set in four registration orders started as an unversioned server: accepted in all orders or none, identical answers).",
"C02": " Parameter schemas also include documented enums, oneOf with mixed alternatives, $ref to scalar/object types and nullable refs; the method pool includes two extension methods in non-upper-case spelling.",
"C03": " 15% of the paths are deep (6-93 segments, slash runs up to 47).",
"C05": " Further phases: membership_shapes (every pair of disjoint ranges on an exact route plus the wildcard route below it, or on one route, both orders) and header policy against three APIs (ladder, only unrestricted endpoints, unrestricted plus restricted elsewhere).",
"C07": " The baseline API has two endpoint-specific error types with the same bare name in different modules; body-size refusals are a precondition and not judged.",
"C08": " The zoo has ~90 types; enrichment also generates numeric limits beyond the i64 range and fractional ones.",
"C09": " Further phases: h2_multiplexed (a whole batch as concurrent streams of one HTTP/2 connection, with declared length or DATA frames of generated sizes incl. zero-length frames), h2_multipart_storm (ten servers hit at once by 12-40 concurrent small multipart streams each; statistical guard for the D11 race), https_interleaved_handshakes; echo endpoints for paginated first-page parameters, wildcard remainders typed as enums/UUIDs and a flat type over JSON.",
"C10": " Further malformation classes: an undecodable component of a typed wildcard remainder, ill-typed/missing/duplicated first-page parameters of a paginated endpoint, and a body well-formed for the other typed-body encoding and labelled as such.",
"C12": " A quarter of the in-process cases build an unserialisable response on the same thread first (it must be refused and leave nothing behind).",
"C13": " Also: 1-23 concurrent clients (ids unique across concurrent requests) and handlers that put an x-request-id of their own on the response (the request's own id must still be there).",
"C14": " Repeated scan parameters next to a token are generated too (ignored like any other scan parameter).",
"C15": " 7% of the fillers push the token over the framework's maximum: the server may abort such a scan with an error (not judged) but must not return a non-empty page without a token.",
"C16": " HTTPS variants of every scenario class.",
"C17": " The release of every wait_for_shutdown() future is ordered like close(); a quarter of the scenarios request shutdown by dropping the server; HTTPS variants.",
"C18": " HTTPS batches (scripts inside and outside the TLS session), four stalled connections held open throughout, and bursts of connections reset the moment they are established.",
"C19": " Phase served_live: every endpoint (function and trait style) gets a valid request; the handler-observed request_body_max_bytes() must be the declared limit (else the server default) and buffered bodies of exactly limit / limit+1 bytes are accepted / refused.",
"C20": " Same handshakes over HTTPS; phase burst_then_flush (handler writes until the connection takes no more, flushes and waits; every byte must arrive; plain and TLS).",
}
checks=[]
for i in ids:
    if i in BUILT:
        t,lt,ln,ref=BUILT[i]
        lt=lt+ADDED.get(i,"")
        checks.append({
            "property_id": i,
            "quick_cmd": f"./check {i} quick",
            "thorough_cmd": f"./check {i} thorough",
            "evidence_file": f"/verif/evidence/{i}.json",
            "replay_cmd_template": f"./check {i} quick --replay {{path}}",
            "engine": "vcheck" if i not in ("C07","C19") else "genapi",
            "level_claimed": {"category":"exploration","text":lt,"design_ref":ref},
            "level_note": ln,
            "technique": t,
        })
na=[{"property_id":i,"reason":"check under construction in this session (see DESIGN.md section 4); will be claimed once built"} for i in ids if i not in BUILT]
m={"version":1,
 "setup_cmd":"cd /verif/harness && CARGO_NET_OFFLINE=true cargo build --offline",
 "hooks":{"guard":"dropshot_verif","enable":"no source hooks: every check observes dropshot through its public API; the harness crate depends on /repo/dropshot by path so each check rebuilds from the working tree","baseline_off_cmd":"cd /repo && cargo test --workspace --no-fail-fast --offline","source_commits":[],"add_only":True},
 "engines":[{"name":"genapi","path":"/verif/harness/genapi","serves_properties":["C07","C19"],"kind_free_text":"crate whose src/generated.rs is written by `vcheck progen <seed> <n>` (proptest strategies sampled deterministically) and compiled against /repo; runs the C19 comparisons and the generated half of C07"},{"name":"vcheck","path":"/verif/harness/vcheck","serves_properties":[c["property_id"] for c in checks],"kind_free_text":"proptest 1.11 TestRunner driven from one binary (fixed seed from VERIF_SEED, shrinking, JSON replay files), explicit reference models, raw-socket HTTP/1.1 client; libFuzzer targets under /verif/fuzz for the thorough tier"}],
 "checks":checks,
 "not_applicable":na,
 "notes":"./check <id> <quick|thorough> [--replay file]; exit 0 held, 1 VIOLATION, 2 INCONCLUSIVE (build failure / watchdog / generator-health failure; never a violation). known_findings.json lists genuine defects (fixed ones suppress nothing)."}
json.dump(m,open('/verif/MANIFEST.json','w'),indent=1)
print("claimed:",[c["property_id"] for c in checks])
