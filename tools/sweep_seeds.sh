#!/bin/bash
# tools/sweep_seeds.sh [names...] : re-applies every recorded seeded change to /repo (one at a time, reverted straight afterwards)
# and runs the quick checks named in its caught_by list; prints one line per seed.  Evidence files are overwritten by these
# runs, so finish with tools/run_all.sh on the clean tree.
cd /verif
git -C /repo diff --quiet || { echo "/repo has uncommitted changes"; exit 2; }
NAMES="$@"; [ -z "$NAMES" ] && NAMES=$(ls seeded)
for n in $NAMES; do
  d=seeded/$n; [ -f $d/patch.diff ] || continue
  IDS=$(python3 -c "
import json,re
m=json.load(open('$d/meta.json'))
ids=[]
for c in m['caught_by']:
    mm=re.match(r'(C\d\d)\b',c)
    if mm and mm.group(1) not in ids: ids.append(mm.group(1))
print(' '.join(ids))")
  if ! git -C /repo apply --check /verif/$d/patch.diff 2>/dev/null; then echo "$n: PATCH DOES NOT APPLY"; continue; fi
  git -C /repo apply /verif/$d/patch.diff
  RES=""
  for id in $IDS; do
    OUT=$(./check $id quick 2>&1); RC=$?
    KEY=$(echo "$OUT" | grep -m1 "key=" | sed -E 's/.*key=([^ ]+).*/\1/')
    RES="$RES $id:rc=$RC${KEY:+($KEY)}"
  done
  git -C /repo checkout -- .
  echo "$n:$RES"
done
