#!/usr/bin/env python3
"""tools/record_seed.py C01a 'C01:hit-missed:wildcard-empty-vs-exact' ... : writes seeded/<name>/meta.json"""
import json,sys,os,shutil,glob
name=sys.argv[1]; caught=sys.argv[2:]
src=f'/tmp/seed_{name}'; dst=f'/verif/seeded/{name}'
os.makedirs(dst,exist_ok=True)
for f in glob.glob(src+'/*.rs')+[src+'/patch.diff',src+'/demo.md']:
    if os.path.exists(f): shutil.copy(f,dst)
m=json.load(open(src+'/meta.json'))
v=json.load(open(src+'/verify.json')) if os.path.exists(src+'/verify.json') else {}
meta={"property":m["property"],"breaks":m.get("summary"),"needs_to_manifest":m.get("needs"),
 "files_changed":m.get("files_changed"),"demo_cmd":m.get("demo_cmd"),
 "origin":"independent sub-agent given only the property text and a scratch worktree",
 "what_i_ran":{"verify_script":"tools/verify_seed.sh (scratch worktree /tmp/wt_verify at /repo HEAD): demo without patch, demo with patch, full workspace suite with patch",
   "demo_exit_without_patch":v.get("demo_clean_exit"),"demo_exit_with_patch":v.get("demo_patched_exit"),
   "suite_ok_result_lines_with_patch":v.get("suite_ok_lines"),"suite_failure_lines_with_patch":v.get("suite_fail_lines"),
   "checks":"tools/try_patch.sh: git -C /repo apply patch.diff; ./check <id> quick; git -C /repo checkout -- ."},
 "caught_by":caught}
json.dump(meta,open(dst+'/meta.json','w'),indent=1)
print(dst, meta["caught_by"])
