#!/bin/bash
# runs every claimed check (tier $1, default quick) on the current /repo tree and validates evidence
TIER=${1:-quick}
git -C /repo diff --quiet || { echo "/repo has uncommitted changes"; exit 2; }
fail=0
for id in $(python3 -c "import json;print(' '.join(c['property_id'] for c in json.load(open('/verif/MANIFEST.json'))['checks']))"); do
  S=$(date +%s); OUT=$(./check $id $TIER 2>&1); RC=$?; E=$(( $(date +%s) - S ))
  echo "$id rc=$RC ${E}s $(echo "$OUT" | tail -1)"
  if [ $RC -ne 0 ]; then fail=1; echo "$OUT" | grep -E "VIOLATION|INCONCLUSIVE|HARNESS|phase=" | head -5; fi
done
tools/validate.sh | grep -v " ok$"
exit $fail
