#!/bin/bash
# tools/try_patch.sh <patch> <id> [<id>...] : apply patch to /repo, run quick checks, revert
P="$1"; shift
git -C /repo diff --quiet || { echo "/repo dirty"; exit 2; }
git -C /repo apply "$P" || { echo "patch does not apply"; exit 2; }
for id in "$@"; do
  S=$(date +%s)
  OUT=$(./check $id quick 2>&1); RC=$?
  E=$(( $(date +%s) - S ))
  echo "--- $id rc=$RC ${E}s"
  echo "$OUT" | grep -E "^VIOLATION|^  phase=|INCONCLUSIVE|KNOWN" | cut -c1-400 | head -6
done
git -C /repo checkout -- .
