#!/usr/bin/env python3
"""prints the prompt for a seeding sub-agent: tools/agent_prompt.py C01 a"""
import json,sys
pid,tag=sys.argv[1],sys.argv[2]
hint=sys.argv[3] if len(sys.argv)>3 else ""
p=[json.loads(l) for l in open('/verif/properties.jsonl') if json.loads(l)['id']==pid][0]
wt=f"/tmp/wt_{pid}{tag}"
out=f"/tmp/seed_{pid}{tag}"
print(f"""You are helping evaluate a verification harness by injecting a realistic defect into a Rust code base.

The code base is oxidecomputer/dropshot (a REST API server framework: trie router, versioned endpoints, typed extractors, pagination, OpenAPI generation). You have your own scratch git worktree of it at {wt} (already created, detached HEAD). Work ONLY inside {wt} and {out} (create {out}). Do not touch /repo or /verif, and do not read anything under /verif or /root/.claude (ignore any memory notes you may have been shown; they are not part of your task). The sandbox is offline: always pass --offline to cargo (e.g. `cargo test --offline ...`), nothing can be downloaded.

Here is a semantic property that the code base is supposed to satisfy:

  Title: {p['title']}
  Statement: {p['statement']}
  Quantified over: {p['quantifier']['text']}
  Relevant files: {', '.join(p['anchors']['files'])}

Your task: make ONE small, realistic source change to dropshot (the kind of slip a developer could make in a refactor or 'optimisation': an off-by-one, a wrong comparison, a dropped condition, a swapped argument, a missed case, state that leaks between two sites) that BREAKS this property, while
  (1) the workspace still compiles without new warnings turned errors, and
  (2) the existing test suite still passes completely: run `cd {wt} && cargo test --workspace --offline --no-fail-fast 2>&1 | grep -E "^test result|FAILED|failed"` and make sure nothing fails (doc tests included). The existing tests must NOT be edited.
The change must need something SPECIFIC to manifest - a particular shape of route table / unusual input / particular value at a boundary / multi-step sequence / particular interleaving / two cooperating sites that each look fine alone - and must NOT be exposed by ordinary use at once (if nearly every request or every registration misbehaves, it is too blunt; pick something subtler). It must be a genuine violation of the property as stated (not of something the statement does not say). {hint}

Then write a demonstration: a NEW test file or small example program (e.g. a new file under {wt}/dropshot/tests/ or {wt}/dropshot/examples/, using only the public API, or a new #[test] in a new file) that FAILS with your change and PASSES without it. Verify both directions yourself by applying and reverting your patch (`git diff > patch.diff`, `git apply -R patch.diff`, `git apply patch.diff`). Do NOT use `git stash`: the stash is shared between all worktrees of this repository and other agents are working in sibling worktrees at the same time.

Deliverables, all under {out}/:
  - patch.diff : output of `git -C {wt} diff` for the source change ONLY (not including the demonstration file); it must apply cleanly with `git apply` to a clean checkout of the same commit.
  - the demonstration file (copy of it) plus demo.md saying exactly where to place it and the exact command to run it.
  - meta.json : {{"property": "{pid}", "summary": "<one sentence: what was changed>", "needs": "<what specific input/shape/sequence is needed for it to manifest>", "files_changed": [...], "demo_cmd": "<command>", "suite_cmd": "<command you ran for the existing suite>", "suite_result": "<summary line>"}}

Keep the change to a few lines. Build output is large: when you are completely done, run `rm -rf {wt}/target` to free disk space (keep the worktree itself). Report back a short summary of the change and what you verified.""")
