#!/bin/bash
# tools/verify_seed.sh /tmp/seed_C01a  -> verifies a seeded change in the shared scratch worktree /tmp/wt_verify
# (1) patch applies and builds, (2) existing suite passes with it, (3) demo fails with it, (4) demo passes without it
set -u
SEED="$1"; NAME=$(basename "$SEED")
WT=/tmp/wt_verify
LOG="$SEED/verify.log"; : > "$LOG"
export CARGO_NET_OFFLINE=true RUST_BACKTRACE=0
# the integration tests write log files named after binary hash + pid into TMPDIR; keep them apart from other worktrees
export TMPDIR=/tmp/wt_verify_tmp; rm -rf $TMPDIR; mkdir -p $TMPDIR
if [ ! -d $WT ]; then git -C /repo worktree add --detach $WT HEAD >>"$LOG" 2>&1; fi
cd $WT && git checkout -q --detach $(git -C /repo rev-parse HEAD) 2>>"$LOG" && git checkout -- . && git clean -fdq -e target
DEMO_CMD=$(python3 -c "import json;print(json.load(open('$SEED/meta.json'))['demo_cmd'])")
DEMO_CMD=$(echo "$DEMO_CMD" | sed -E "s#cd /tmp/wt_[A-Za-z0-9]+#cd $WT#; s#/tmp/wt_[A-Za-z0-9]+#$WT#g")
# place demo files: every .rs in the seed dir goes to dropshot/tests (or examples if demo.md says so)
for f in "$SEED"/*.rs; do
  [ -e "$f" ] || continue
  if grep -q "examples/$(basename $f)" "$SEED/demo.md" 2>/dev/null; then cp "$f" $WT/dropshot/examples/; else cp "$f" $WT/dropshot/tests/; fi
done
echo "== demo without patch: $DEMO_CMD" >>"$LOG"
( eval "$DEMO_CMD" ) >>"$LOG" 2>&1; R_CLEAN=$?
git apply "$SEED/patch.diff" >>"$LOG" 2>&1 || { echo "{\"seed\":\"$NAME\",\"error\":\"patch does not apply\"}"; exit 1; }
echo "== demo with patch" >>"$LOG"
( eval "$DEMO_CMD" ) >>"$LOG" 2>&1; R_PATCHED=$?
# suite with patch, demo files removed
for f in "$SEED"/*.rs; do [ -e "$f" ] && rm -f $WT/dropshot/tests/$(basename $f) $WT/dropshot/examples/$(basename $f); done
echo "== suite with patch" >>"$LOG"
cargo test --workspace --offline --no-fail-fast 2>&1 | grep -E "^test result|FAILED|^error" >>"$LOG"
SUITE_FAIL=$(sed -n "/== suite with patch/,\$p" "$LOG" | grep -cE "FAILED|[1-9][0-9]* failed|^error")
SUITE_OK=$(sed -n '/== suite with patch/,$p' "$LOG" | grep -c "^test result: ok")
git checkout -- . && git clean -fdq -e target
echo "{\"seed\":\"$NAME\",\"demo_clean_exit\":$R_CLEAN,\"demo_patched_exit\":$R_PATCHED,\"suite_ok_lines\":$SUITE_OK,\"suite_fail_lines\":$SUITE_FAIL}" | tee "$SEED/verify.json"
rm -rf /tmp/wt_verify_tmp
