#![no_main]
//! bytes -> page token string -> PaginationParams parsing, judged against the
//! independent lenient decoder (same oracle as C14's bad-token phase).
use libfuzzer_sys::fuzz_target;

fuzz_target!(|data: &[u8]| {
    if let Ok(s) = std::str::from_utf8(data) {
        if let Err(f) = vlib::c14::judge_token_string(s) {
            panic!("C14 {}: {}", f.key, f.msg);
        }
    }
});
