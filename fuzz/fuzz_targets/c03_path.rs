#![no_main]
//! bytes -> request path -> lookup_route on a wildcard table and a literal/variable
//! table, judged by the reference normaliser (same oracle as C03's proptest phases).
use libfuzzer_sys::fuzz_target;

fuzz_target!(|data: &[u8]| {
    if let Ok(s) = std::str::from_utf8(data) {
        let raw = format!("/{}", s);
        if let Err(f) = vlib::c03::judge_raw(&raw) {
            panic!("C03 {}: {}", f.key, f.msg);
        }
    }
});
